// poolsim (C16): a grammar pool survives a simulated restart.
//   build pool A from generated schemas (imports, every component kind the generator knows) and DTDs  ->  record how A
//   validates generated instance documents (events, errors, defaulted attributes, PSVI) and its XSModel listing  ->
//   serializeGrammars = the durable write  ->  [Terminate + Initialize = crash and restart: only the bytes survive]  ->
//   deserializeGrammars into pool B = recovery  ->  B must validate the same documents identically and expose an equal
//   component model; serialising B again must give an equivalent stream (restored once more into C, compared the same
//   way); a stream whose serialisation-level stamp differs must be refused with XSerializationException.
#include "../sim/parserun.hpp"
#include "../sim/schemagen.hpp"
#include "../sim/xsmodeldump.hpp"
#include <xercesc/framework/XMLGrammarPoolImpl.hpp>
#include <xercesc/internal/BinMemOutputStream.hpp>
#include <xercesc/internal/XSerializationException.hpp>
#include <xercesc/util/BinMemInputStream.hpp>
#include <xercesc/parsers/SAX2XMLReaderImpl.hpp>
#include <xercesc/framework/psvi/PSVIHandler.hpp>
#include <xercesc/framework/psvi/PSVIElement.hpp>
#include <xercesc/framework/psvi/PSVIAttribute.hpp>
#include <xercesc/framework/psvi/PSVIAttributeList.hpp>
#include <xercesc/framework/LocalFileInputSource.hpp>
#include <xercesc/sax2/DefaultHandler.hpp>

using namespace sim;

// ---------------------------------------------------------------------------------------------- DTD side
struct GenDtd { std::string file, text; std::vector<std::string> instances; };
static GenDtd genDtd(Rng& r, int idx) {
    GenDtd d; d.file = "d" + std::to_string(idx) + ".dtd"; std::string& t = d.text;
    static const char* models[] = { "(a,b?,c*)", "(a|b|c)+", "(#PCDATA|a|b)*", "(a,(b|c)*,a?)", "ANY", "(a+,b)", "(#PCDATA)" };
    int rm = (int)r.below(7); t += std::string("<!ELEMENT r ") + models[rm] + ">\n";
    t += std::string("<!ELEMENT a ") + (r.coin() ? "(#PCDATA)" : "EMPTY") + ">\n<!ELEMENT b " + (r.coin() ? "(#PCDATA|c)*" : "(c*)") + ">\n<!ELEMENT c EMPTY>\n";
    if (r.chance(1, 2)) t += "<!NOTATION gif SYSTEM \"viewer.exe\">\n<!NOTATION png PUBLIC \"-//x//png\">\n";
    t += "<!ATTLIST r id ID #IMPLIED kind (x|y|z) \"y\" ver CDATA #FIXED \"1\" toks NMTOKENS #IMPLIED>\n";
    if (r.chance(2, 3)) t += std::string("<!ATTLIST a ref IDREF #IMPLIED req CDATA ") + (r.coin() ? "#REQUIRED" : "\"dflt\"") + ">\n";
    if (t.find("NOTATION gif") != std::string::npos && r.coin()) t += "<!ATTLIST c fmt NOTATION (gif|png) #IMPLIED>\n<!ENTITY pic SYSTEM \"pic.gif\" NDATA gif>\n<!ATTLIST c src ENTITY #IMPLIED>\n";
    if (r.coin()) t += "<!ENTITY ge \"replacement &amp; text\">\n<!ENTITY % pe \"<!ELEMENT viaPE ANY>\">\n%pe;\n";
    int n = 2 + (int)r.below(3);
    for (int i = 0; i < n; i++) { std::string x = "<?xml version=\"1.0\"?>\n<!DOCTYPE r SYSTEM \"" + d.file + "\">\n<r";
        if (r.coin()) x += " id=\"i" + std::to_string(i) + "\""; if (r.chance(1, 3)) x += std::string(" kind=\"") + (r.chance(1, 4) ? "q" : "z") + "\""; if (r.chance(1, 4)) x += " toks=\"a b\""; if (r.chance(1, 8)) x += " undeclared=\"1\"";
        x += ">"; int k = (int)r.below(5); for (int j = 0; j < k; j++) { int w = (int)r.below(5); if (w == 0) x += "<a/>"; else if (w == 1) x += "<a req=\"v\" ref=\"i" + std::to_string(i) + "\">t</a>"; else if (w == 2) x += "<b><c/></b>"; else if (w == 3) x += "<c/>"; else x += "text&ge;"; }
        x += "</r>\n"; d.instances.push_back(x); }
    return d;
}

// ---------------------------------------------------------------------------------------------- recording a validation
class Collect : public DefaultHandler, public PSVIHandler {
public:
    std::string out;
    static std::string s8(const XMLCh* x) { return x ? esc8(pu8(x)) : std::string("(null)"); }
    void startElement(const XMLCh* const uri, const XMLCh* const localname, const XMLCh* const qname, const Attributes& attrs) override {
        out += "start {" + s8(uri) + "}" + s8(localname) + " " + s8(qname);
        std::vector<std::string> as; for (XMLSize_t i = 0; i < attrs.getLength(); i++) as.push_back(" " + s8(attrs.getQName(i)) + "=\"" + s8(attrs.getValue(i)) + "\":" + s8(attrs.getType(i)));
        std::sort(as.begin(), as.end()); for (auto& a : as) out += a; out += "\n";
    }
    void endElement(const XMLCh* const, const XMLCh* const, const XMLCh* const qname) override { out += "end " + s8(qname) + "\n"; }
    void characters(const XMLCh* const chars, const XMLSize_t length) override { out += "chars \"" + esc8(u8(chars, length)) + "\"\n"; }
    void ignorableWhitespace(const XMLCh* const chars, const XMLSize_t length) override { out += "ignorable " + std::to_string(length) + " \"" + esc8(u8(chars, length)) + "\"\n"; }
    void warning(const SAXParseException& e) override { out += "WARNING " + s8(e.getMessage()) + "\n"; }
    void error(const SAXParseException& e) override { out += "ERROR [" + std::to_string((unsigned long)e.getLineNumber()) + ":" + std::to_string((unsigned long)e.getColumnNumber()) + "] " + s8(e.getMessage()) + "\n"; }
    void fatalError(const SAXParseException& e) override { out += "FATAL [" + std::to_string((unsigned long)e.getLineNumber()) + ":" + std::to_string((unsigned long)e.getColumnNumber()) + "] " + s8(e.getMessage()) + "\n"; }
    static std::string typeName(XSTypeDefinition* t) { if (!t) return "-"; return "{" + s8(t->getNamespace()) + "}" + s8(t->getName()) + (t->getAnonymous() ? "(anon)" : ""); }
    std::string item(PSVIItem* i) { if (!i) return "(no psvi)"; return "validity=" + std::to_string((int)i->getValidity()) + " attempted=" + std::to_string((int)i->getValidationAttempted()) + " type=" + typeName(i->getTypeDefinition()) + " member=" + typeName(i->getMemberTypeDefinition()) + " default=" + s8(i->getSchemaDefault()) + " norm=" + s8(i->getSchemaNormalizedValue()) + " specified=" + std::to_string(i->getIsSchemaSpecified()) + " ctx=" + s8(i->getValidationContext()); }
    void handleElementPSVI(const XMLCh* const localName, const XMLCh* const uri, PSVIElement* info) override { out += "psvi-element {" + s8(uri) + "}" + s8(localName) + " " + item(info); if (info) { XSElementDeclaration* d = info->getElementDeclaration(); out += std::string(" decl=") + (d ? "{" + s8(d->getNamespace()) + "}" + s8(d->getName()) : "-") + " notation=" + (info->getNotationDeclaration() ? s8(info->getNotationDeclaration()->getName()) : "-"); } out += "\n"; }
    void handlePartialElementPSVI(const XMLCh* const, const XMLCh* const, PSVIElement*) override {}
    void handleAttributesPSVI(const XMLCh* const localName, const XMLCh* const, PSVIAttributeList* list) override { if (!list) return; std::vector<std::string> v; for (XMLSize_t i = 0; i < list->getLength(); i++) { PSVIAttribute* a = list->getAttributePSVIAtIndex(i); XSAttributeDeclaration* d = a ? a->getAttributeDeclaration() : nullptr; v.push_back("psvi-attr " + s8(localName) + "/@{" + s8(list->getAttributeNamespaceAtIndex(i)) + "}" + s8(list->getAttributeNameAtIndex(i)) + " " + item(a) + " decl=" + (d ? s8(d->getName()) : "-")); } std::sort(v.begin(), v.end()); for (auto& l : v) out += l + "\n"; }
};

struct PoolBox {
    XMLGrammarPoolImpl* pool = nullptr;
    PoolBox() { pool = new XMLGrammarPoolImpl(XMLPlatformUtils::fgMemoryManager); }
    ~PoolBox() { delete pool; }
    SAX2XMLReaderImpl* reader(Collect& c, bool fullChecking) {
        SAX2XMLReaderImpl* p = new SAX2XMLReaderImpl(XMLPlatformUtils::fgMemoryManager, pool);
        p->setFeature(XMLUni::fgSAX2CoreNameSpaces, true); p->setFeature(XMLUni::fgSAX2CoreValidation, true); p->setFeature(XMLUni::fgXercesDynamic, true); p->setFeature(XMLUni::fgXercesSchema, true);
        p->setFeature(XMLUni::fgXercesSchemaFullChecking, fullChecking); p->setFeature(XMLUni::fgXercesIdentityConstraintChecking, true); p->setFeature(XMLUni::fgXercesUseCachedGrammarInParse, true);
        p->setExitOnFirstFatalError(true); p->setContentHandler(&c); p->setErrorHandler(&c); p->setPSVIHandler(&c);
        return p;
    }
    // loads every grammar file into the pool; returns the log of the load (errors are part of the recorded behaviour of A only)
    std::string load(const std::vector<std::pair<std::string, bool>>& files, bool fullChecking) {
        Collect c; SAX2XMLReaderImpl* p = reader(c, fullChecking); p->setFeature(XMLUni::fgXercesCacheGrammarFromParse, true); p->setFeature(XMLUni::fgXercesDynamic, false);      // validation always: a DTD's own validity errors are reported at load time
        for (auto& f : files) { c.out += "load " + f.first + "\n"; try { std::u16string sys = X(("/sim/" + f.first).c_str()); LocalFileInputSource src((const XMLCh*)sys.c_str()); Grammar* g = p->loadGrammar(src, f.second ? Grammar::DTDGrammarType : Grammar::SchemaGrammarType, true); c.out += g ? "  grammar cached\n" : "  no grammar\n"; } catch (const XMLException& e) { c.out += "  XMLException " + pu8(e.getMessage()) + "\n"; } catch (const SAXException& e) { c.out += "  SAXException " + pu8(e.getMessage()) + "\n"; } catch (const OutOfMemoryException&) { c.out += "  OutOfMemory\n"; } }
        delete p; return c.out;
    }
    std::string validate(const std::string& text, bool fullChecking) {
        Collect c; SAX2XMLReaderImpl* p = reader(c, fullChecking);
        try { MemBufInputSource src((const XMLByte*)text.data(), text.size(), "/sim/instance.xml"); p->parse(src); }
        catch (const SAXParseException&) { c.out += "exception SAXParseException\n"; } catch (const SAXException& e) { c.out += "exception SAXException " + pu8(e.getMessage()) + "\n"; } catch (const XMLException& e) { c.out += "exception XMLException " + pu8(e.getMessage()) + "\n"; } catch (const OutOfMemoryException&) { c.out += "exception OutOfMemory\n"; }
        delete p; return canonical(c.out);
    }
    // errors raised at one and the same position (e.g. several missing required attributes of one start tag) come in the iteration
    // order of a hash table, which a restore may change: such a run of lines is sorted
    static std::string canonical(const std::string& rec) {
        std::vector<std::string> lines; size_t b = 0; while (b < rec.size()) { size_t e = rec.find('\n', b); if (e == std::string::npos) e = rec.size(); lines.push_back(rec.substr(b, e - b)); b = e + 1; }
        auto key = [](const std::string& l) { if (l.rfind("ERROR [", 0) != 0) return std::string(); return l.substr(0, l.find(']') + 1); };
        for (size_t i = 0; i < lines.size();) { std::string k = key(lines[i]); size_t j = i + 1; if (!k.empty()) { while (j < lines.size() && key(lines[j]) == k) j++; std::sort(lines.begin() + (long)i, lines.begin() + (long)j); } i = j; }
        std::string out; for (auto& l : lines) out += l + "\n"; return out;
    }
    std::string model() { bool changed = false; XSModel* m = pool->getXSModel(changed); XSModelDumper d; return d.dump(m); }
    size_t grammarCount() { size_t n = 0; RefHashTableOfEnumerator<Grammar> e = pool->getGrammarEnumerator(); while (e.hasMoreElements()) { e.nextElement(); n++; } return n; }
};

static std::string firstDiff(const std::string& a, const std::string& b, std::string& tok) {
    size_t i = 0, la = 0; int line = 1; while (i < a.size() && i < b.size() && a[i] == b[i]) { if (a[i] == '\n') { la = i + 1; line++; } i++; }
    size_t ea = a.find('\n', la), eb = b.find('\n', la); std::string x = a.substr(la, ea == std::string::npos ? std::string::npos : ea - la), y = la <= b.size() ? b.substr(la, eb == std::string::npos ? std::string::npos : eb - la) : "";
    tok = x.substr(0, x.find(' ')); if (tok.empty()) tok = y.substr(0, y.find(' ')); if (tok.empty()) tok = "eof"; for (auto& ch : tok) if (!isalnum((unsigned char)ch)) ch = '_';
    return "line " + std::to_string(line) + ": original=<" + x.substr(0, 300) + "> restored=<" + y.substr(0, 300) + ">";
}

class PoolEngine : public Engine {
public:
    std::string property() const override { return "C16"; }
    std::string rule() const override { return "one run = generate 1-3 XML Schemas (imports between them; simple types with every facet kind, lists, unions; complex types with sequence / choice / all, mixed, simple and complex content by extension and restriction, block / final / abstract, attributes with use / default / fixed, attribute groups, model groups, wildcards; global elements with substitution groups, nillable, block / final, identity constraints; notations, annotations) and 0-2 DTDs, load them into pool A, record how A validates 3-10 generated instance documents (events, attribute values incl. defaults, error texts and positions, PSVI of every element and attribute) and its XSModel listing; serializeGrammars; optionally Terminate + Initialize (restart: only the byte stream survives); deserializeGrammars into B; B must give the same records and listing; serialise B again, the stream must have the same length and restore (pool C) to the same behaviour; the same stream with another serialisation level must be refused with XSerializationException. distinct = plan hash; non-trivial = at least one grammar was cached and at least one instance was assessed against it (validity known)"; }
    Json describe() const override {
        Json d = Json::obj(); Json real = Json::arr(); for (auto s : { "XMLGrammarPoolImpl serialize / deserialize, XSerializeEngine, XTemplateSerializer, every Serializable grammar class", "TraverseSchema / DTDScanner (building pool A)", "SGXMLScanner / IGXMLScanner validation against cached grammars, identity constraints, PSVI", "XSModel / XSObjectFactory", "XMLPlatformUtils::Terminate / Initialize" }) real.push(s);
        Json stub = Json::arr(); for (auto s : { "storage (the serialised stream is held by the simulator across the restart)", "XMLFileMgr (simulated file system holding the grammar files)" }) stub.push(s);
        d.set("components_real", real); d.set("components_stubbed", stub); d.set("simulated_time", "logical steps: load, record, serialise, restart, restore, compare");
        Json as = Json::arr(); as.push("the stream is delivered in full blocks, as XSerializeEngine requires of its input stream; torn or bit-flipped streams are outside the statement (only the level stamp is)"); as.push("component coverage is bounded by sim/schemagen.hpp; the kinds that occurred are counted as probes"); d.set("assumptions", as); return d;
    }
    uint64_t defaultRuns(const std::string& tier) const override { return tier == "quick" ? 20000 : 400000; }

    Json generate(uint64_t seed, uint64_t index, const std::string& tier) override {
        Rng r = runRng(seed, index, "workload"); Json plan = Json::obj(); plan.set("mode", "C16");
        SchemaGen sg(r.sub("schemas")); int ns = r.range(1, 3); std::vector<GenSchema> gs; Json files = Json::arr(); Json insts = Json::arr(); Json kinds = Json::obj();
        for (int i = 0; i < ns; i++) { GenSchema g = sg.make(i, i > 0 ? &gs[(size_t)i - 1] : nullptr); gs.push_back(g); }
        for (int i = ns - 1; i >= 0; i--) { Json f = Json::obj(); f.set("file", gs[(size_t)i].file); f.set("text", gs[(size_t)i].text); f.set("dtd", false); files.push(f); for (auto& kv : gs[(size_t)i].kinds) kinds.set(kv.first, (long long)(kinds.geti(kv.first, 0) + kv.second)); }     // importing schemas first
        int ni = tier == "quick" ? r.range(3, 8) : r.range(3, 14); for (int i = 0; i < ni; i++) { const GenSchema& g = gs[r.below(gs.size())]; std::string x = sg.instance(g); if (r.chance(1, 10)) { Rng mr = r.sub(("mut" + std::to_string(i)).c_str()); mutateBytes(mr, x); } insts.push(x); }
        int nd = (int)r.below(3); Rng dr = r.sub("dtds"); for (int i = 0; i < nd; i++) { GenDtd d = genDtd(dr, i); Json f = Json::obj(); f.set("file", d.file); f.set("text", d.text); f.set("dtd", true); files.push(f); for (auto& x : d.instances) insts.push(x); kinds.set("dtd", (long long)(kinds.geti("dtd", 0) + 1)); }
        plan.set("files", files); plan.set("instances", insts); plan.set("kinds", kinds);
        plan.set("restart", r.chance(1, 2)); plan.set("lock", r.chance(1, 2)); plan.set("full", r.chance(1, 3)); plan.set("flip", r.chance(1, 3)); plan.set("serlocked", r.chance(1, 2));
        return plan;
    }
    std::vector<Json> shrinkCandidates(const Json& plan) override {
        std::vector<Json> c; for (const char* key : { "instances", "files" }) { size_t n = plan.at(key).a.size(); for (size_t i = 0; i < n && n > 1; i++) { Json p = plan; jsonRemoveAt(p.ref(key), i); c.push_back(p); } }
        for (const char* flag : { "restart", "lock", "full", "flip" }) if (plan.getb(flag)) { Json p = plan; p.set(flag, false); c.push_back(p); }
        return c;
    }
    Json sampleView(const Json& plan) override { Json p = plan; for (auto& f : p.ref("files").a) { std::string t = f.gets("text"); if (t.size() > 400) f.set("text", t.substr(0, 400) + "...(" + std::to_string(t.size()) + " chars)"); } return p; }

    Outcome execute(const Json& plan) override {
        Outcome o; o.fingerprint = fnv1a(plan.dump()); g_run.reset(10000000);
        static CachingGlobalMM* gmm = new CachingGlobalMM();
        auto init = [&]() { XMLPlatformUtils::Initialize(XMLUni::fgXercescDefaultLocale, 0, 0, gmm); };
        bool full = plan.getb("full"), lock = plan.getb("lock"); std::vector<std::pair<std::string, bool>> files; std::vector<std::string> insts; for (auto& s : plan.at("instances").a) insts.push_back(s.s);
        for (auto& kv : plan.at("kinds").o) g_run.probes["component:" + kv.first] += (uint64_t)kv.second.i64();
        init();
        SimFileMgr* fm = new SimFileMgr(); for (auto& f : plan.at("files").a) { SimFile sf; sf.data = f.gets("text"); fm->files["/sim/" + f.gets("file")] = sf; files.emplace_back(f.gets("file"), f.getb("dtd")); }
        auto fail = [&](const std::string& cls, const std::string& detail) { if (!o.violated) { o.violated = true; o.cls = cls; o.detail = detail; } };
        std::string bytes, bytes2, loadLog, modelA; std::vector<std::string> recA; size_t grammarsA = 0; bool assessed = false, grammarErrors = false;
        {   // ---- original pool
            WorldInstall wi(fm, nullptr); PoolBox A; g_run.tick();
            loadLog = A.load(files, full); grammarsA = A.grammarCount(); g_run.probes["grammars_cached"] += grammarsA;
            // A schema / DTD that was loaded with errors is not a grammar in the sense of the statement (what an instance means against
            // it is not defined, e.g. a content model that violates unique particle attribution is matched differently depending on
            // whether the UPA check ran when it was built): such pools go through the whole cycle (restore must work, no crash, same
            // component model, same stream length) but their validation records are not compared.
            if (getenv("POOLSIM_LOADLOG")) fprintf(stderr, "%s", loadLog.c_str());
            grammarErrors = loadLog.find("\nERROR") != std::string::npos || loadLog.find("\nFATAL") != std::string::npos || loadLog.find("Exception") != std::string::npos; g_run.probe(grammarErrors ? "pool_with_grammar_errors" : "pool_clean");
            if (grammarsA) {
                if (lock && plan.getb("serlocked")) { A.pool->lockPool(); g_run.probe("serialised_while_locked"); }      // the stream then carries the lock status
                try { BinMemOutputStream out(64 * 1024); A.pool->serializeGrammars(&out); bytes.assign((const char*)out.getRawBuffer(), (size_t)out.getSize()); g_run.probes["serialised_bytes"] += bytes.size(); }
                catch (const XSerializationException& e) { fail("pool-serialize-throws", "serializeGrammars of the original pool raised XSerializationException: " + pu8(e.getMessage())); }
                catch (const XMLException& e) { fail("pool-serialize-throws", "serializeGrammars of the original pool raised " + pu8(e.getType()) + ": " + pu8(e.getMessage())); }
                if (lock) A.pool->lockPool();
                for (auto& x : insts) { recA.push_back(A.validate(x, full)); g_run.tick(); if (recA.back().find("validity=2") != std::string::npos || recA.back().find("validity=1") != std::string::npos || recA.back().find("ERROR") != std::string::npos) assessed = true; }
                modelA = A.model();
            }
        }
        if (grammarsA && !o.violated) {
            if (plan.getb("restart")) { XMLPlatformUtils::Terminate(); g_run.fault("restart"); g_run.tick(); init(); }
            auto restore = [&](const std::string& stream, const char* which, std::string* reserialised) {
                WorldInstall wi(fm, nullptr); PoolBox B; g_run.tick();
                try { BinMemInputStream in((const XMLByte*)stream.data(), stream.size()); B.pool->deserializeGrammars(&in); }
                catch (const XSerializationException& e) { fail("pool-restore-throws", std::string("deserializeGrammars of ") + which + " raised XSerializationException: " + pu8(e.getMessage())); return; }
                catch (const XMLException& e) { fail("pool-restore-throws", std::string("deserializeGrammars of ") + which + " raised " + pu8(e.getType()) + ": " + pu8(e.getMessage())); return; }
                if (B.grammarCount() != grammarsA) { fail("pool-restore:grammar-count", std::string(which) + ": " + std::to_string(B.grammarCount()) + " grammars after the restore, the original pool had " + std::to_string(grammarsA)); return; }
                if (reserialised) { try { BinMemOutputStream out(64 * 1024); B.pool->serializeGrammars(&out); reserialised->assign((const char*)out.getRawBuffer(), (size_t)out.getSize()); } catch (const XMLException& e) { fail("pool-serialize-throws", std::string("serializeGrammars of ") + which + " raised " + pu8(e.getType()) + ": " + pu8(e.getMessage())); return; } }
                if (lock) B.pool->lockPool();
                for (size_t i = 0; i < insts.size(); i++) { std::string rb = B.validate(insts[i], full); g_run.tick(); if (rb != recA[i] && !grammarErrors) { std::string tok; std::string d = firstDiff(recA[i], rb, tok); fail("pool-restore:validation-differs:" + tok, std::string(which) + ", instance " + std::to_string(i) + ": " + d); return; } }
                std::string mb = B.model(); if (mb != modelA) { std::string tok; std::string d = firstDiff(modelA, mb, tok); fail("pool-restore:model-differs:" + tok, std::string(which) + ": XSModel listing " + d); return; }
            };
            restore(bytes, "the restored pool", &bytes2);
            if (!o.violated) {
                if (bytes2.size() != bytes.size()) fail("pool-restore:reserialised-length", "serialising the restored pool gives " + std::to_string(bytes2.size()) + " bytes, the original stream has " + std::to_string(bytes.size()));
                else { if (bytes2 == bytes) g_run.probe("reserialised_stream_identical"); else g_run.probe("reserialised_stream_same_length_other_bytes"); restore(bytes2, "the pool restored from the re-serialised stream", nullptr); }
            }
            if (!o.violated && plan.getb("flip") && bytes.size() >= 4) {      // another serialisation level in the stamp that leads the stream
                std::string bad = bytes; unsigned int lvl; memcpy(&lvl, bad.data(), 4); lvl += 1 + (unsigned)(o.fingerprint % 3); memcpy(&bad[0], &lvl, 4); g_run.fault("level_stamp_changed");
                WorldInstall wi(fm, nullptr); PoolBox D; bool refused = false;
                try { BinMemInputStream in((const XMLByte*)bad.data(), bad.size()); D.pool->deserializeGrammars(&in); } catch (const XSerializationException&) { refused = true; } catch (const XMLException& e) { fail("pool-level:wrong-exception", "a stream with another serialisation level raised " + pu8(e.getType()) + " instead of XSerializationException"); refused = true; }
                if (!refused) fail("pool-level:accepted", "a stream whose serialisation level stamp differs from this build's was accepted by deserializeGrammars");
            }
        }
        delete fm; XMLPlatformUtils::Terminate();
        o.nontrivial = grammarsA > 0 && assessed && !grammarErrors;
        return o;
    }
};

// ---------------------------------------------------------------------------------------------- C15, cached-grammar clauses
// "Validating with a grammar that was preloaded (loadGrammar) or cached from an earlier parse yields the same verdicts, defaults and
//  type information as parsing the grammar inline ... and a locked grammar pool is never modified."  One plan = generated grammars in
// a simulated file system + instances that name them (xsi:schemaLocation / DOCTYPE). Used by histsim as a sub-mode of C15 (the library
// is initialised by the caller).
struct PoolTransparency {
    static Json generate(Rng r, const std::string& tier) {
        Json plan = Json::obj(); plan.set("mode", "C15pool"); SchemaGen sg(r.sub("schemas")); int ns = r.range(1, 2); std::vector<GenSchema> gs; Json files = Json::arr(), insts = Json::arr();
        for (int i = 0; i < ns; i++) gs.push_back(sg.make(i, i > 0 ? &gs[(size_t)i - 1] : nullptr));
        for (int i = ns - 1; i >= 0; i--) { Json f = Json::obj(); f.set("file", gs[(size_t)i].file); f.set("text", gs[(size_t)i].text); f.set("dtd", false); files.push(f); }
        int ni = tier == "quick" ? r.range(2, 5) : r.range(2, 9);
        for (int i = 0; i < ni; i++) { const GenSchema& g = gs.back(); std::string x = sg.instance(g); std::string hint = g.ns.empty() ? " xsi:noNamespaceSchemaLocation=\"" + g.file + "\"" : " xsi:schemaLocation=\"" + g.ns + " " + g.file + "\"";
            if (x.find("chemaLocation=") == std::string::npos) { size_t at = x.find(" xmlns:xsi="); if (at != std::string::npos) x.insert(at, hint); } insts.push(x); }
        // either schemas or a DTD: a pool must not hold a grammar the instance would not load itself (a no-namespace schema in the pool
        // captures the elements of a DTD document), or "same as inline" is not what the statement promises
        if (r.chance(1, 3)) { files = Json::arr(); insts = Json::arr(); Rng dr = r.sub("dtds"); GenDtd d = genDtd(dr, 0); Json f = Json::obj(); f.set("file", d.file); f.set("text", d.text); f.set("dtd", true); files.push(f); for (auto& x : d.instances) insts.push(x); }
        plan.set("files", files); plan.set("instances", insts); plan.set("full", r.chance(1, 3)); plan.set("lock", r.chance(1, 2));
        return plan;
    }
    static std::vector<Json> shrinkCandidates(const Json& plan) { std::vector<Json> c; size_t n = plan.at("instances").a.size(); for (size_t i = 0; i < n && n > 1; i++) { Json p = plan; jsonRemoveAt(p.ref("instances"), i); c.push_back(p); } return c; }
    // a parser without any preloaded grammar: the instance names its grammar itself
    static std::string inlineRecord(const std::string& text, bool full, XMLGrammarPoolImpl* ownPool, bool cache, bool useCached) {
        Collect c; SAX2XMLReaderImpl* p = ownPool ? new SAX2XMLReaderImpl(XMLPlatformUtils::fgMemoryManager, ownPool) : new SAX2XMLReaderImpl(XMLPlatformUtils::fgMemoryManager);
        p->setFeature(XMLUni::fgSAX2CoreNameSpaces, true); p->setFeature(XMLUni::fgSAX2CoreValidation, true); p->setFeature(XMLUni::fgXercesDynamic, true); p->setFeature(XMLUni::fgXercesSchema, true); p->setFeature(XMLUni::fgXercesSchemaFullChecking, full); p->setFeature(XMLUni::fgXercesIdentityConstraintChecking, true);
        p->setFeature(XMLUni::fgXercesCacheGrammarFromParse, cache); p->setFeature(XMLUni::fgXercesUseCachedGrammarInParse, useCached || cache); p->setExitOnFirstFatalError(true); p->setContentHandler(&c); p->setErrorHandler(&c); p->setPSVIHandler(&c);
        try { MemBufInputSource src((const XMLByte*)text.data(), text.size(), "/sim/instance.xml"); p->parse(src); } catch (const SAXParseException&) { c.out += "exception SAXParseException\n"; } catch (const SAXException& e) { c.out += "exception SAXException " + pu8(e.getMessage()) + "\n"; } catch (const XMLException& e) { c.out += "exception XMLException " + pu8(e.getMessage()) + "\n"; } catch (const OutOfMemoryException&) { c.out += "exception OutOfMemory\n"; }
        delete p; return PoolBox::canonical(c.out);
    }
    static void execute(const Json& plan, Outcome& o) {
        g_run.reset(10000000); bool full = plan.getb("full"); std::vector<std::pair<std::string, bool>> files; std::vector<std::string> insts; for (auto& s : plan.at("instances").a) insts.push_back(s.s);
        SimFileMgr* fm = new SimFileMgr(); for (auto& f : plan.at("files").a) { SimFile sf; sf.data = f.gets("text"); fm->files["/sim/" + f.gets("file")] = sf; files.emplace_back(f.gets("file"), f.getb("dtd")); }
        auto fail = [&](const std::string& cls, const std::string& detail) { if (!o.violated) { o.violated = true; o.cls = cls; o.detail = detail; } };
        {
            WorldInstall wi(fm, nullptr); PoolBox A; std::string loadLog = A.load(files, full); g_run.tick(); if (getenv("POOLSIM_LOADLOG")) fprintf(stderr, "%s", loadLog.c_str());
            bool grammarErrors = loadLog.find("\nERROR") != std::string::npos || loadLog.find("\nFATAL") != std::string::npos || loadLog.find("Exception") != std::string::npos || loadLog.find("\nWARNING") != std::string::npos;
            g_run.probe(grammarErrors ? "pool_with_grammar_errors" : "pool_clean"); size_t grammarsA = A.grammarCount();
            if (!grammarErrors && grammarsA) {      // (an inline parse would report the grammar's own errors in the middle of the instance's record)
                o.nontrivial = true;
                std::vector<std::string> inl; for (auto& x : insts) { inl.push_back(inlineRecord(x, full, nullptr, false, false)); g_run.tick(); }
                // preloaded
                for (size_t i = 0; i < insts.size() && !o.violated; i++) { std::string r = A.validate(insts[i], full); g_run.tick(); if (r != inl[i]) { std::string tok; std::string d = firstDiff(inl[i], r, tok); fail("grammar-cache:preloaded-differs:" + tok, "instance " + std::to_string(i) + " validated against grammars preloaded with loadGrammar differs from the parse that loads them inline (shown as original=inline, restored=preloaded): " + d); } }
                // cached from an earlier parse of the same parser
                if (!o.violated) { XMLGrammarPoolImpl* own = new XMLGrammarPoolImpl(XMLPlatformUtils::fgMemoryManager);
                    for (size_t i = 0; i < insts.size() && !o.violated; i++) { std::string r1 = inlineRecord(insts[i], full, own, true, false); g_run.tick(); if (r1 != inl[i]) { std::string tok; std::string d = firstDiff(inl[i], r1, tok); fail("grammar-cache:caching-parse-differs:" + tok, "instance " + std::to_string(i) + " parsed with cacheGrammarFromParse differs from the plain parse (original=plain, restored=caching): " + d); break; }
                        std::string r2 = inlineRecord(insts[i], full, own, false, true); g_run.tick(); if (r2 != inl[i]) { std::string tok; std::string d = firstDiff(inl[i], r2, tok); fail("grammar-cache:cached-differs:" + tok, "instance " + std::to_string(i) + " validated against the grammar cached by an earlier parse differs from the parse that loads it inline (original=inline, restored=cached): " + d); } }
                    delete own; }
                // a locked pool is never modified
                if (!o.violated && plan.getb("lock")) {
                    auto snapshot = [&]() { std::string s; try { BinMemOutputStream out(64 * 1024); A.pool->serializeGrammars(&out); s.assign((const char*)out.getRawBuffer(), (size_t)out.getSize()); } catch (const XMLException&) { s = "<throws>"; } return s; };
                    A.pool->lockPool(); std::string before = snapshot(); std::string modelBefore = A.model();
                    std::string foreign = "<?xml version=\"1.0\"?>\n<f:r xmlns:f=\"urn:foreign\" xmlns:xsi=\"http://www.w3.org/2001/XMLSchema-instance\" xsi:schemaLocation=\"urn:foreign foreign.xsd\">1</f:r>\n";
                    SimFile ff; ff.data = "<?xml version=\"1.0\"?>\n<xs:schema xmlns:xs=\"http://www.w3.org/2001/XMLSchema\" targetNamespace=\"urn:foreign\"><xs:element name=\"r\" type=\"xs:integer\"/></xs:schema>\n"; fm->files["/sim/foreign.xsd"] = ff;
                    for (auto& x : insts) { A.validate(x, full); g_run.tick(); } A.validate(foreign, full); { Collect c; SAX2XMLReaderImpl* p = A.reader(c, full); p->setFeature(XMLUni::fgXercesCacheGrammarFromParse, true); try { MemBufInputSource src((const XMLByte*)foreign.data(), foreign.size(), "/sim/instance.xml"); p->parse(src); } catch (...) {} delete p; }
                    if (A.grammarCount() != grammarsA) fail("grammar-cache:locked-pool-modified", "a locked pool has " + std::to_string(A.grammarCount()) + " grammars after parses against it, it had " + std::to_string(grammarsA) + " when it was locked");
                    else { std::string after = snapshot(); if (after.size() != before.size()) fail("grammar-cache:locked-pool-modified", "the serialised form of a locked pool changed its length (" + std::to_string(before.size()) + " -> " + std::to_string(after.size()) + ") after parses against it"); else if (A.model() != modelBefore) fail("grammar-cache:locked-pool-modified", "the XSModel listing of a locked pool changed after parses against it"); }
                    A.pool->unlockPool(); g_run.fault("pool_locked_then_parsed_against");
                }
            }
        }
        delete fm;
    }
};

// ---------------------------------------------------------------------------------------------- C15, schema-validated histories
// One long-lived SAX2 parser validates generated instances (xsi:nil, xsi:type, substitutions, identity constraints, defaults) against
// generated schemas named by the instances themselves; some parses are cut short - a handler exception at the k-th callback, a
// truncated document, an abandoned progressive parse (with and without parseReset). After every operation the record must equal
// that of a fresh parser performing only that operation: schema-validator state must not survive an aborted parse.
struct ThrowingCollect : public Collect {
    long throwAt = -1, callbacks = 0;
    void tick() { if (++callbacks == throwAt) { out += "(handler throws)\n"; throw SAXException("injected by the simulation", XMLPlatformUtils::fgMemoryManager); } }
    void startElement(const XMLCh* const uri, const XMLCh* const localname, const XMLCh* const qname, const Attributes& attrs) override { Collect::startElement(uri, localname, qname, attrs); tick(); }
    void endElement(const XMLCh* const uri, const XMLCh* const localname, const XMLCh* const qname) override { Collect::endElement(uri, localname, qname); tick(); }
    void characters(const XMLCh* const chars, const XMLSize_t length) override { Collect::characters(chars, length); tick(); }
};
struct SchemaHistory {
    static Json generate(Rng r, const std::string& tier) {
        Json plan = Json::obj(); plan.set("mode", "C15schema"); SchemaGen sg(r.sub("schemas")); int ns = r.range(1, 2); std::vector<GenSchema> gs; Json files = Json::arr(), insts = Json::arr(), ops = Json::arr();
        for (int i = 0; i < ns; i++) gs.push_back(sg.make(i, i > 0 ? &gs[(size_t)i - 1] : nullptr));
        for (int i = ns - 1; i >= 0; i--) { Json f = Json::obj(); f.set("file", gs[(size_t)i].file); f.set("text", gs[(size_t)i].text); files.push(f); }
        int ni = r.range(2, 5); for (int i = 0; i < ni; i++) { const GenSchema& g = gs.back(); std::string x = sg.instance(g); std::string hint = g.ns.empty() ? " xsi:noNamespaceSchemaLocation=\"" + g.file + "\"" : " xsi:schemaLocation=\"" + g.ns + " " + g.file + "\""; if (x.find("chemaLocation=") == std::string::npos) { size_t at = x.find(" xmlns:xsi="); if (at != std::string::npos) x.insert(at, hint); } insts.push(x); }
        int no = tier == "quick" ? r.range(3, 8) : r.range(3, 20);
        for (int i = 0; i < no; i++) { Json op = Json::obj(); op.set("inst", (int)r.below((uint64_t)ni)); int kind = r.chance(1, 2) ? 0 : 1 + (int)r.below(3); op.set("kind", kind); op.set("k", (long long)r.below(400)); ops.push(op); }
        plan.set("files", files); plan.set("instances", insts); plan.set("ops", ops); plan.set("full", r.chance(1, 3));
        return plan;
    }
    static std::vector<Json> shrinkCandidates(const Json& plan) { std::vector<Json> c; size_t n = plan.at("ops").a.size(); for (size_t i = 0; i < n && n > 1; i++) { Json p = plan; jsonRemoveAt(p.ref("ops"), i); c.push_back(p); } for (size_t i = 0; i < n; i++) if (plan.at("ops").a[i].geti("kind")) { Json p = plan; p.ref("ops").a[i].set("kind", 0); c.push_back(p); } return c; }
    static SAX2XMLReaderImpl* make(ThrowingCollect& c, bool full) {
        SAX2XMLReaderImpl* p = new SAX2XMLReaderImpl(XMLPlatformUtils::fgMemoryManager);
        p->setFeature(XMLUni::fgSAX2CoreNameSpaces, true); p->setFeature(XMLUni::fgSAX2CoreValidation, true); p->setFeature(XMLUni::fgXercesDynamic, true); p->setFeature(XMLUni::fgXercesSchema, true); p->setFeature(XMLUni::fgXercesSchemaFullChecking, full); p->setFeature(XMLUni::fgXercesIdentityConstraintChecking, true);
        p->setExitOnFirstFatalError(true); p->setContentHandler(&c); p->setErrorHandler(&c); p->setPSVIHandler(&c); return p;
    }
    static std::string run(SAX2XMLReaderImpl* p, ThrowingCollect& c, const std::string& text, int kind, long k) {
        c.out.clear(); c.callbacks = 0; c.throwAt = kind == 1 ? 1 + k % 14 : -1; std::string doc = text; if (kind == 2 && !doc.empty()) doc.resize(40 + (size_t)k * 7 % doc.size() < doc.size() ? 40 + (size_t)k * 7 % doc.size() : doc.size() / 2);
        try { MemBufInputSource src((const XMLByte*)doc.data(), doc.size(), "/sim/instance.xml");
            if (kind == 3) { XMLPScanToken tok; if (p->parseFirst(src, tok)) { long steps = k % 12; bool more = true; for (long s = 0; s < steps && more; s++) more = p->parseNext(tok); if (more) { c.out += "(abandoned)\n"; if (k & 1) p->parseReset(tok); } } }
            else p->parse(src); }
        catch (const SAXParseException&) { c.out += "exception SAXParseException\n"; } catch (const SAXException&) { c.out += "exception SAXException\n"; } catch (const XMLException& e) { c.out += "exception XMLException " + pu8(e.getMessage()) + "\n"; } catch (const OutOfMemoryException&) { c.out += "exception OutOfMemory\n"; }
        return PoolBox::canonical(c.out);
    }
    static void execute(const Json& plan, Outcome& o) {
        g_run.reset(10000000); bool full = plan.getb("full"); std::vector<std::string> insts; for (auto& s : plan.at("instances").a) insts.push_back(s.s);
        SimFileMgr* fm = new SimFileMgr(); for (auto& f : plan.at("files").a) { SimFile sf; sf.data = f.gets("text"); fm->files["/sim/" + f.gets("file")] = sf; }
        {
            WorldInstall wi(fm, nullptr); ThrowingCollect cl; SAX2XMLReaderImpl* L = make(cl, full); int opIndex = 0; bool abortedBefore = false;
            for (auto& op : plan.at("ops").a) {
                opIndex++; const std::string& text = insts[(size_t)op.geti("inst") % insts.size()]; int kind = (int)op.geti("kind"); long k = (long)op.geti("k"); g_run.tick();
                std::string recL = run(L, cl, text, kind, k); std::string recF; { ThrowingCollect cf; SAX2XMLReaderImpl* F = make(cf, full); recF = run(F, cf, text, kind, k); delete F; }
                if (abortedBefore) o.nontrivial = true;
                if (recL != recF) { std::string tok; std::string d = firstDiff(recF, recL, tok); o.violated = true; o.cls = "history-dependence:schema:" + tok; o.detail = "operation " + std::to_string(opIndex) + " of " + std::to_string(plan.at("ops").a.size()) + " (schema-validating SAX2 parser, kind " + std::to_string(kind) + ") differs from a fresh parser (shown as original=fresh, restored=reused): " + d; break; }
                if (kind != 0 || recL.find("FATAL") != std::string::npos) { abortedBefore = true; g_run.fault(kind == 1 ? "handler_exception" : kind == 2 ? "truncated_document" : kind == 3 ? "progressive_abandoned" : "fatal_error"); }
            }
            delete L;
        }
        delete fm;
    }
};

#ifndef POOLSIM_NO_MAIN
int main(int argc, char** argv) { return driverMain(argc, argv, [](const std::string& p) -> Engine* { if (p == "C16") return new PoolEngine(); return nullptr; }); }
#endif
