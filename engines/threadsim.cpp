// threadsim: C17 - distinct parser / document / transcoder objects used from concurrent threads.
// Real threads, real xerces-c code (TSan build); one thread runs at a time, the seeded baton scheduler decides who
// at every XMLMutex operation, at (a fraction of) allocations and at operation boundaries. ThreadSanitizer, which
// cannot see the baton (sim/baton/baton.cpp is uninstrumented), reports every pair of conflicting accesses that
// xerces' own locking does not order. See DESIGN.md 3.5 and 5.C17.
#include "../sim/parserun.hpp"
#include "../sim/schedgen.hpp"
#include "../sim/baton/baton.hpp"
#include <xercesc/util/XMLMutexMgr.hpp>
#include <xercesc/util/regx/RegularExpression.hpp>
#include <xercesc/util/TransService.hpp>
extern "C" uint64_t sim_icu_converter_calls();      // sim/icuwrap.cpp
#include <xercesc/util/XMLInitializer.hpp>
#include <xercesc/framework/XMLGrammarPoolImpl.hpp>
#include <xercesc/framework/MemBufFormatTarget.hpp>
#include <thread>
#include <unistd.h>

using namespace sim;

extern "C" void __tsan_acquire(void* addr);
extern "C" void __tsan_release(void* addr);
extern "C" int __tsan_get_report_data(void* report, const char** description, int* count, int* stack_count, int* mop_count, int* loc_count, int* mutex_count, int* thread_count, int* unique_tid_count, void** sleep_trace, unsigned long trace_size);
extern "C" int __tsan_get_report_mop(void* report, unsigned long idx, int* tid, void** addr, int* size, int* write, int* atomic, void** trace, unsigned long trace_size);

// (TSan report capture: __tsan_on_report lives in sim/baton/baton.cpp, uninstrumented)
using baton::RawReport;

// Own symbol table (one `nm` per worker process, inherited by the per-run children): the sanitizer's symbolizer
// would be a freshly spawned llvm-symbolizer in every forked run, which costs about a second each.
struct SymTab {
    std::vector<std::pair<uintptr_t, std::string>> syms; uintptr_t base = 0; bool loaded = false;
    void load() {
        if (loaded) return; loaded = true;
        char exe[256] = ""; ssize_t n = readlink("/proc/self/exe", exe, sizeof exe - 1); if (n > 0) exe[n] = 0;
        FILE* m = fopen("/proc/self/maps", "r"); if (m) { char line[512]; while (fgets(line, sizeof line, m)) if (strstr(line, exe)) { base = (uintptr_t)strtoull(line, 0, 16); break; } fclose(m); }
        std::string cmd = std::string("nm -n -C --defined-only '") + exe + "' 2>/dev/null";
        FILE* p = popen(cmd.c_str(), "r"); if (!p) return;
        char line[4096];
        while (fgets(line, sizeof line, p)) { char* sp = strchr(line, ' '); if (!sp || !sp[1] || sp[2] != ' ') continue; char t = sp[1]; if (t != 'T' && t != 't' && t != 'W' && t != 'w') continue; uintptr_t a = (uintptr_t)strtoull(line, 0, 16); std::string name = sp + 3; while (!name.empty() && (name.back() == '\n' || name.back() == ' ')) name.pop_back(); syms.emplace_back(a, name); }
        pclose(p);
    }
    std::string lookup(void* pc) {
        load(); if (syms.empty()) return "?"; uintptr_t a = (uintptr_t)pc - 1 - base; size_t lo = 0, hi = syms.size();
        while (lo + 1 < hi) { size_t mid = (lo + hi) / 2; if (syms[mid].first <= a) lo = mid; else hi = mid; }
        std::string f = syms[lo].second; size_t par = f.find('('); if (par != std::string::npos) f = f.substr(0, par); return f;
    }
};
static SymTab g_symtab;
static std::string symbolize(void* pc) { return g_symtab.lookup(pc); }
// first frame inside the library, without the namespace
static std::string siteOf(void* const* pcs, std::string* chain) {
    std::string site;
    for (int i = 0; i < 10 && pcs[i]; i++) { std::string f = symbolize(pcs[i]); if (chain && i < 8) { if (!chain->empty()) *chain += " <- "; *chain += f; }
        if (site.empty() && f.find("xercesc_4_0::") != std::string::npos && f.find("XMemory::operator") == std::string::npos && f.find("MemoryManager") == std::string::npos) site = f; }
    size_t ns; while ((ns = site.find("xercesc_4_0::")) != std::string::npos) site.erase(ns, 13);
    return site.empty() ? "?" : site;
}

// ---- seams owned by the scheduler
class SimMutexMgr : public XMLMutexMgr {
public:
    explicit SimMutexMgr(XMLMutexMgr* orig) : fOrig(orig) {}
    ~SimMutexMgr() { delete fOrig; }
    XMLMutexHandle create(MemoryManager* const m) override { return fOrig->create(m); }
    void destroy(XMLMutexHandle h, MemoryManager* const m) override { fOrig->destroy(h, m); }
    // mutual exclusion is enforced by the scheduler (a waiter is simply not runnable); TSan is told the semantics
    void lock(XMLMutexHandle h) override { baton::lock(h); __tsan_acquire(h); }
    void unlock(XMLMutexHandle h) override { __tsan_release(h); baton::unlock(h); }
private:
    XMLMutexMgr* fOrig;
};
// plain malloc/free (no recycling: TSan's own allocator models block reuse), every allocation is a possible pre-emption point
class YieldingMM : public MemoryManager {
public:
    MemoryManager* getExceptionMemoryManager() override { return this; }
    void* allocate(XMLSize_t size) override { baton::yieldPoint(baton::K_ALLOC); void* p = malloc(size ? size : 1); if (!p) throw OutOfMemoryException(); return p; }
    void deallocate(void* p) override { free(p); }
};
// stateless file manager: nothing exists (every resource a thread needs is handed out by its own resolver)
class NullFileMgr : public XMLFileMgr {
public:
    FileHandle fileOpen(const XMLCh*, bool, MemoryManager* const) override { return 0; }
    FileHandle fileOpen(const char*, bool, MemoryManager* const) override { return 0; }
    FileHandle openStdIn(MemoryManager* const) override { return 0; }
    void fileClose(FileHandle, MemoryManager* const) override {}
    void fileReset(FileHandle, MemoryManager* const) override {}
    XMLFilePos curPos(FileHandle, MemoryManager* const) override { return 0; }
    XMLFilePos fileSize(FileHandle, MemoryManager* const) override { return 0; }
    XMLSize_t fileRead(FileHandle, XMLSize_t, XMLByte*, MemoryManager* const) override { return 0; }
    void fileWrite(FileHandle, XMLSize_t, const XMLByte*, MemoryManager* const) override {}
    XMLCh* getFullPath(const XMLCh* const p, MemoryManager* const m) override { std::string s = u8(p); if (s.empty() || s[0] != '/') s = "/sim/" + s; std::u16string a = X(s); return XMLString::replicate(xc(a), m); }
    XMLCh* getCurrentDirectory(MemoryManager* const m) override { std::u16string a = X("/sim"); return XMLString::replicate(xc(a), m); }
    bool isRelative(const XMLCh* const p, MemoryManager* const) override { return !(p && p[0] == '/'); }
};
class NullNetAccessor : public XMLNetAccessor {
public:
    const XMLCh* getId() const override { static const XMLCh id[] = { 'n', 0 }; return id; }
    BinInputStream* makeNew(const XMLURL& u, const XMLNetHTTPInfo* = 0) override { ThrowXMLwithMemMgr1(NetAccessorException, XMLExcepts::NetAcc_ConnSocket, u.getURLText(), u.getMemoryManager()); }
};

// ---- fixed grammars for the shared locked pool and for typed private parses
static const char* kSchema1 =
"<?xml version='1.0'?><xs:schema xmlns:xs='http://www.w3.org/2001/XMLSchema' elementFormDefault='qualified'>"
"<xs:simpleType name='code'><xs:restriction base='xs:string'><xs:pattern value='[A-Z]{2}\\d{3}|\\p{Lu}\\p{Ll}+-\\p{Nd}'/></xs:restriction></xs:simpleType>"
"<xs:simpleType name='sizes'><xs:list itemType='xs:positiveInteger'/></xs:simpleType>"
"<xs:complexType name='item'><xs:sequence><xs:element name='name' type='xs:token'/><xs:element name='qty' type='xs:positiveInteger'/><xs:element name='lang' type='xs:language' minOccurs='0'/>"
"<xs:element name='code' type='code'/><xs:element name='price' minOccurs='0'><xs:simpleType><xs:restriction base='xs:decimal'><xs:fractionDigits value='2'/><xs:minInclusive value='0'/></xs:restriction></xs:simpleType></xs:element>"
"<xs:choice minOccurs='0' maxOccurs='3'><xs:element name='tag' type='xs:NMTOKEN'/><xs:element name='when' type='xs:date'/><xs:element name='sizes' type='sizes'/></xs:choice></xs:sequence>"
"<xs:attribute name='id' type='xs:ID' use='required'/><xs:attribute name='cur' default='EUR'><xs:simpleType><xs:restriction base='xs:string'><xs:enumeration value='EUR'/><xs:enumeration value='USD'/></xs:restriction></xs:simpleType></xs:attribute></xs:complexType>"
"<xs:element name='order'><xs:complexType><xs:sequence><xs:element name='item' type='item' maxOccurs='unbounded'/><xs:element name='note' minOccurs='0'><xs:complexType mixed='true'><xs:sequence><xs:any processContents='lax' minOccurs='0' maxOccurs='unbounded'/></xs:sequence></xs:complexType></xs:element></xs:sequence><xs:attribute name='ver' type='xs:integer'/></xs:complexType>"
"<xs:unique name='uq'><xs:selector xpath='item'/><xs:field xpath='name'/></xs:unique></xs:element></xs:schema>";
static const char* kSchema2 =
"<?xml version='1.0'?><xs:schema xmlns:xs='http://www.w3.org/2001/XMLSchema' targetNamespace='urn:t2' xmlns:t='urn:t2' elementFormDefault='qualified'>"
"<xs:element name='shape' type='t:shape' abstract='true'/><xs:complexType name='shape'><xs:attribute name='label' type='xs:Name'/></xs:complexType>"
"<xs:element name='circle' substitutionGroup='t:shape'><xs:complexType><xs:complexContent><xs:extension base='t:shape'><xs:attribute name='r' type='xs:double' use='required'/></xs:extension></xs:complexContent></xs:complexType></xs:element>"
"<xs:element name='box' substitutionGroup='t:shape'><xs:complexType><xs:complexContent><xs:extension base='t:shape'><xs:sequence><xs:element name='w' type='xs:unsignedShort'/><xs:element name='h' type='xs:unsignedShort'/></xs:sequence></xs:extension></xs:complexContent></xs:complexType></xs:element>"
"<xs:simpleType name='idOrDate'><xs:union memberTypes='xs:date xs:int'/></xs:simpleType>"
"<xs:element name='drawing'><xs:complexType><xs:sequence><xs:element ref='t:shape' minOccurs='0' maxOccurs='unbounded'/><xs:element name='stamp' type='t:idOrDate' minOccurs='0'/></xs:sequence><xs:attribute name='lang' type='xs:language'/></xs:complexType></xs:element></xs:schema>";

static std::string instance1(Rng& r, int uniq, bool withLocation) {
    std::string s = "<order xmlns:x" + std::to_string(uniq) + "='urn:new:" + std::to_string(uniq) + "' ver='" + std::to_string((int)r.below(9)) + "'";
    if (withLocation) s += " xmlns:xsi='http://www.w3.org/2001/XMLSchema-instance' xsi:noNamespaceSchemaLocation='s1.xsd'";
    s += ">";
    int n = r.range(1, 4);
    for (int i = 0; i < n; i++) {
        bool bad = r.chance(1, 6);
        s += "<item id='i" + std::to_string(i) + (r.chance(1, 10) ? "' cur='USD" : "") + "'><name>n" + std::to_string(r.chance(1, 8) ? 0 : i) + "</name><qty>" + (bad && r.coin() ? "-1" : std::to_string(1 + (int)r.below(50))) + "</qty>";
        if (r.coin()) s += std::string("<lang>") + (bad && r.coin() ? "not a lang" : (r.coin() ? "en-GB" : "de")) + "</lang>";
        s += std::string("<code>") + (bad && r.coin() ? "ab123" : (r.coin() ? "XY123" : "Abc-7")) + "</code>";
        if (r.coin()) s += "<price>" + std::to_string((int)r.below(100)) + (r.chance(1, 8) ? ".123" : ".50") + "</price>";
        int k = r.small(3); for (int j = 0; j < k; j++) { unsigned w = (unsigned)r.below(3); s += w == 0 ? "<tag>t-1</tag>" : w == 1 ? (r.chance(1, 6) ? "<when>2001-02-30</when>" : "<when>2004-02-29</when>") : "<sizes>1 2 30</sizes>"; }
        s += "</item>";
    }
    if (r.coin()) s += "<note>free <x" + std::to_string(uniq) + ":b>text</x" + std::to_string(uniq) + ":b></note>";
    return s + "</order>";
}
static std::string instance2(Rng& r, int uniq) {
    std::string s = "<t:drawing xmlns:t='urn:t2' xmlns:y" + std::to_string(uniq) + "='urn:other:" + std::to_string(uniq) + "' lang='" + (r.chance(1, 8) ? "x y" : "fr") + "'>";
    int n = r.range(0, 4); for (int i = 0; i < n; i++) { if (r.coin()) s += "<t:circle label='c" + std::to_string(i) + "' r='" + (r.chance(1, 8) ? "wide" : "1.5E2") + "'/>"; else s += "<t:box label='b'><t:w>" + std::to_string((int)r.below(70000)) + "</t:w><t:h>3</t:h></t:box>"; }
    if (r.coin()) s += std::string("<t:stamp>") + (r.coin() ? "2020-01-01" : "12345") + "</t:stamp>";
    return s + "</t:drawing>";
}

// ---- shared, read-only while threads run
struct Shared { XMLGrammarPool* pool = nullptr; };

static uint64_t digestStr(const std::string& s) { return fnv1a(s); }

// one workload operation; returns a digest of its observable result. Runs on a worker thread or (oracle) on the main thread.
static uint64_t runOp(const Json& op, const Shared& sh) {
    std::string kind = op.gets("op"); uint64_t d = fnv1a(kind);
    try {
        if (kind == "parse" || kind == "parse_typed" || kind == "parse_pool") {
            std::vector<Resource> res = resourcesFromJson(op.at("resources")); ParseCfg cfg = ParseCfg::fromJson(op.at("cfg"));
            ParseEnv env; env.res = &res; env.resolver = 1; env.sourceKind = "membuf";
            ParserBox box(cfg.api, XMLPlatformUtils::fgMemoryManager, kind == "parse_pool" ? sh.pool : nullptr);
            box.configure(cfg);
            ParseResult pr = box.parse(env);
            d = fnv1a(pr.dump, d); d = fnv1a(pr.exception, d);
        } else if (kind == "dom") {
            static const XMLCh ls[] = { 'L', 'S', 0 };
            DOMImplementation* impl = DOMImplementationRegistry::getDOMImplementation(ls);
            std::u16string root = X(op.gets("root", "r")), ns = X("urn:dom:" + std::to_string(op.geti("uniq")));
            DOMDocumentType* dt = op.getb("doctype") ? impl->createDocumentType(xc(root), 0, xc(ns)) : nullptr;    // owner-less doctype: static helper document
            DOMDocument* doc = impl->createDocument(xc(ns), xc(root), dt);
            int n = (int)op.geti("n", 5);
            for (int i = 0; i < n; i++) { std::u16string nm = X("e" + std::to_string(i % 3)); DOMElement* e = doc->createElementNS(xc(ns), xc(nm)); e->setAttribute(xc(nm), xc(root)); e->appendChild(doc->createTextNode(xc(nm))); doc->getDocumentElement()->appendChild(e); if (i % 4 == 3) doc->getDocumentElement()->removeChild(doc->getDocumentElement()->getFirstChild())->release(); }
            doc->normalizeDocument();
            DOMLSSerializer* ser = ((DOMImplementationLS*)impl)->createLSSerializer(); XMLCh* out = ser->writeToString(doc);
            d = fnv1a(u8(out), d); XMLString::release(&out); ser->release(); doc->release();
        } else if (kind == "regex") {
            std::u16string pat = X(op.gets("pattern")), in = X(op.gets("input"));
            RegularExpression re(xc(pat)); bool m = re.matches(xc(in)); d = fnv1a(m ? "1" : "0", d);
            static const XMLCh sp[] = { ' ', 0 }; RefArrayVectorOf<XMLCh>* toks = re.tokenize(xc(in)); d ^= toks ? toks->size() : 99; delete toks; (void)sp;
        } else if (kind == "transcode") {
            std::string s = op.gets("text");
            XMLCh* w = XMLString::transcode(s.c_str()); char* back = XMLString::transcode(w); d = fnv1a(back ? back : "(null)", d); XMLString::release(&w); XMLString::release(&back);
            XMLTransService::Codes rc; XMLTranscoder* t = XMLPlatformUtils::fgTransService->makeNewTranscoderFor(op.gets("enc", "ISO-8859-1").c_str(), rc, 1024);
            if (t) { XMLCh outb[256]; unsigned char sizes[256]; XMLSize_t eaten = 0; XMLSize_t n = t->transcodeFrom((const XMLByte*)s.data(), std::min<size_t>(s.size(), 200), outb, 255, eaten, sizes); d = fnv1a(u8(outb, n), d); delete t; }
        } else if (kind == "exception") {
            try { ThrowXML1(IllegalArgumentException, XMLExcepts::Str_StartIndexPastEnd, X(op.gets("text", "x")).c_str()); } catch (const XMLException& e) { d = fnv1a(u8(e.getMessage()), d); }
            try { DOMImplementation* impl = DOMImplementationRegistry::getDOMImplementation(X("Core").c_str()); DOMDocument* doc = impl->createDocument(); try { doc->createElement(X("1bad").c_str()); } catch (const DOMException& e) { d = fnv1a(u8(e.getMessage()), d); d ^= (uint64_t)e.code; } doc->release(); } catch (const DOMException&) { d ^= 7; }
        } else if (kind == "create_destroy") {
            int n = (int)op.geti("n", 3); for (int i = 0; i < n; i++) { ParserBox b(i % 4); d ^= (uint64_t)b.api(); }
        }
    }
    catch (const XMLException& e) { d = fnv1a("XMLException:" + u8(e.getMessage()), d); }
    catch (const DOMException& e) { d = fnv1a("DOMException", d) ^ (uint64_t)e.code; }
    catch (const SAXException& e) { d = fnv1a("SAXException:" + u8(e.getMessage()), d); }
    catch (const OutOfMemoryException&) { d = fnv1a("OOM", d); }
    return d;
}

static void workerMain(int tid, const Json* ops, const Shared* sh, std::vector<uint64_t>* out) {
    Run::quiet() = true;
    baton::threadBegin(tid);
    for (auto& op : ops->a) { baton::yieldPoint(baton::K_OP); out->push_back(runOp(op, *sh)); }
    baton::threadEnd(tid);
}

// ---------------------------------------------------------------------------------------------
class ThreadEngine : public Engine {
public:
    std::string property() const override { return "C17"; }
    std::string rule() const override { return "one run = Initialize -> (optionally) build and lock a shared grammar pool -> N real threads (2..8 quick, ..16 thorough), each with its own seeded list of operations on private objects (parsers of all APIs, typed schema instances, parsers on the shared locked pool with new namespace URIs, DOM build+serialise incl. owner-less doctypes, regular expressions with category escapes, transcoding, exception message loading, parser create/destroy) -> join -> Terminate; exactly one thread runs at a time and the seeded scheduler (uniform / PCT / bursts) picks the next one at every XMLMutex operation, at a fraction of allocations and at operation boundaries. distinct = distinct schedule-decision hash; non-trivial = at least one pre-emptive switch happened"; }
    Json describe() const override {
        Json d = Json::obj();
        Json real = Json::arr(); for (auto s : { "all of xerces-c incl. XMLMutex/XMLMutexLock call sites, XMLInitializer statics, grammar pool, synchronized string pool, RangeTokenMap, DOMImplementationRegistry, transcoding service (ICU), message loader", "real std::thread threads" }) real.push(s);
        Json stub = Json::arr(); for (auto s : { "XMLMutexMgr (SimMutexMgr: mutual exclusion enforced by the baton scheduler, semantics reported to TSan)", "MemoryManager (malloc + scheduling point)", "XMLFileMgr / XMLNetAccessor (empty world)", "StdMutexMgr's std::recursive_mutex is created but never locked" }) stub.push(s);
        d.set("components_real", real); d.set("components_stubbed", stub);
        d.set("simulated_time", "logical steps = scheduling points");
        Json as = Json::arr(); as.push("ThreadSanitizer (clang 14) as happens-before race detector over instrumented code only (not ICU, not libc); its per-process de-duplication of reports means a race is reported by the first run of a worker that hits it");
        as.push("the baton and all scheduler state are compiled without -fsanitize=thread and synchronise through raw futex calls, so TSan sees exactly the ordering that xerces' own XMLMutex operations and thread create/join establish");
        d.set("assumptions", as);
        return d;
    }
    bool inProcessReexecutionReproducesClass() const override { return false; }
    bool runEachInForkedChild() const override { return true; }
    uint64_t defaultRuns(const std::string& tier) const override { return tier == "quick" ? 450 : 12000; }
    void globalInit() override { g_symtab.load(); setenv("LC_ALL", "C.UTF-8", 1); }      // (the local code page is UTF-8: XMLString::transcode of non-ASCII text then has real work to do)     // once per worker, before the per-run children are forked

    Json generate(uint64_t seed, uint64_t index, const std::string& tier) override {
        Rng wr = runRng(seed, index, "workload"), sr = runRng(seed, index, "sched");
        Json plan = Json::obj(); plan.set("mode", "C17");
        int nthreads = tier == "quick" ? wr.range(2, 6) : wr.range(2, 12);
        Json sc = Json::obj(); sc.set("seed", (long long)(sr.next() >> 1)); sc.set("policy", (int)sr.below(3)); sc.set("pct_depth", 1 + (int)sr.below(5)); sc.set("burst_keep", 800 + (int)sr.below(199)); sc.set("alloc_points", (int)(sr.chance(1, 4) ? 0 : 5 + sr.below(200))); plan.set("sched", sc);
        bool pool = wr.chance(3, 5); plan.set("shared_pool", pool); plan.set("warm", wr.chance(1, 5));
        // An eighth of the runs: nothing but private RegularExpression objects over the XML shorthand escapes (\w \i \c \d \s and their complements). Their shared
        // range tokens get their bitmaps when the range factory is initialised, so - unlike \p{..} tokens (known finding rangetoken-lazy-map) - no race is expected here;
        // reports of these runs carry a marker that the known finding does not match.
        bool xmlOnly = wr.chance(1, 8); if (xmlOnly) { plan.set("xml_ranges_only", true); plan.set("shared_pool", false); plan.set("warm", false); pool = false; }
        Json threads = Json::arr(); int uniq = 0;
        for (int t = 0; t < nthreads; t++) {
            Json ops = Json::arr(); int n = wr.range(1, 5);
            for (int i = 0; i < n; i++) {
                Json op = Json::obj(); unsigned k = (unsigned)wr.below(100); uniq++;
                if (xmlOnly) { static const char* xp[] = { "\\w+", "\\W+", "\\i\\c*", "\\d+\\s\\w*", "\\S+\\s\\D", "\\I\\C+", "\\w\\W\\w" }; static const char* xi[] = { "word", "--", "a.b", "12 x", "ab c", "1-", "a b" };
                    op.set("op", "regex"); op.set("pattern", xp[wr.below(7)]); op.set("input", xi[wr.below(7)]); ops.push(op); continue; }
                if (k < 20) {       // private parser over a generated world (DTD etc.)
                    GenOpts go; go.maxDepth = 3; go.maxChildren = 3; go.idAttrs = true; Rng dr = wr.sub(("d" + std::to_string(uniq)).c_str()); World w = makeWorld(dr, go);
                    ParseCfg c = ParseCfg::random(wr); c.lowWaterMark = -1; c.positions = false; c.secMgr = false; if (c.scanner == 3) c.schema = true;
                    op.set("op", "parse"); op.set("cfg", c.toJson()); op.set("resources", worldToJson(w));
                } else if (k < 40 || (k < 60 && !pool)) {   // typed instance, private grammar built from the schema text (shared built-in datatype registry)
                    World w; Resource doc; doc.name = "doc.xml"; doc.role = "doc"; doc.enc = "UTF-8"; doc.core = instance1(wr, uniq, true); doc.expand(); Resource s1; s1.name = "s1.xsd"; s1.role = "schema"; s1.enc = "UTF-8"; s1.core = kSchema1; s1.expand(); w.res.push_back(doc); w.res.push_back(s1);
                    ParseCfg c; c.api = (int)wr.below(4); c.scanner = wr.coin() ? 0 : 3; c.val = 1; c.ns = true; c.schema = true; c.fullSchema = wr.coin(); c.positions = false;
                    op.set("op", "parse_typed"); op.set("cfg", c.toJson()); op.set("resources", worldToJson(w));
                } else if (k < 60) { // parser attached to the shared locked pool
                    World w; Resource doc; doc.name = "doc.xml"; doc.role = "doc"; doc.enc = "UTF-8"; doc.core = wr.coin() ? instance1(wr, uniq, false) : instance2(wr, uniq); doc.expand(); w.res.push_back(doc);
                    ParseCfg c; c.api = (int)wr.below(4); c.scanner = wr.coin() ? 0 : 3; c.val = 1; c.ns = true; c.schema = true; c.useCachedGrammar = true; c.positions = false; c.psvi = c.api >= 2 && wr.coin();
                    op.set("op", "parse_pool"); op.set("cfg", c.toJson()); op.set("resources", worldToJson(w));
                } else if (k < 70) { op.set("op", "dom"); op.set("uniq", uniq); op.set("n", wr.range(2, 9)); op.set("doctype", wr.coin()); op.set("root", wr.coin() ? "r" : "root"); }
                else if (k < 82) { static const char* pats[] = { "\\p{Lu}\\p{Ll}*\\d+", "[\\i-[:]][\\c-[:]]*", "\\p{IsGreek}+|\\p{Nd}{2,3}", "(a|b)*c\\s\\w+", "[^\\p{Zs}]+@\\P{L}+", "\\p{IsBasicLatin}+\\.\\p{Sc}" }; static const char* ins[] = { "Hello42", "abc:def", "12", "ababc x_y", "a@1", "Ab.$" };
                    op.set("op", "regex"); op.set("pattern", pats[wr.below(6)]); op.set("input", ins[wr.below(6)]); }
                else if (k < 90) { op.set("op", "transcode"); { unsigned tk = (unsigned)wr.below(4); std::string cjk; for (int q = 0, nq = 8 + (int)wr.below(40); q < nq; q++) cjk += (q & 1) ? "\xe5\xad\x97" : "\xe6\xbc\xa2";      // mostly three-byte characters: the local-code-page form is far longer than the UTF-16 form (the transcoder's retry path)
                        op.set("text", tk == 0 ? std::string("plain ascii text") : tk == 1 ? std::string("caf\xc3\xa9 \xe6\xbc\xa2") : cjk); } static const char* encs[] = { "ISO-8859-1", "UTF-8", "windows-1252", "IBM037", "Shift_JIS" }; op.set("enc", encs[wr.below(5)]); }
                else if (k < 95) { op.set("op", "exception"); op.set("text", "t" + std::to_string(uniq)); }
                else { op.set("op", "create_destroy"); op.set("n", wr.range(1, 4)); }
                ops.push(op);
            }
            threads.push(ops);
        }
        plan.set("threads", threads);
        return plan;
    }

    Outcome execute(const Json& plan) override {
        Outcome o; g_run.reset(); baton::reportsReset();
        size_t nthreads = plan.at("threads").a.size();
        YieldingMM* mm = new YieldingMM();
        XMLPlatformUtils::Initialize(XMLUni::fgXercescDefaultLocale, 0, 0, mm);
        XMLPlatformUtils::fgMutexMgr = new SimMutexMgr(XMLPlatformUtils::fgMutexMgr);
        XMLFileMgr* origF = XMLPlatformUtils::fgFileMgr; XMLNetAccessor* origN = XMLPlatformUtils::fgNetAccessor;
        XMLPlatformUtils::fgFileMgr = new NullFileMgr(); XMLPlatformUtils::fgNetAccessor = new NullNetAccessor();
        Shared sh; std::vector<std::vector<uint64_t>> got(nthreads), want(nthreads);
        int result = 0; std::string deadlock;
        {
            if (plan.getb("shared_pool")) {
                sh.pool = new XMLGrammarPoolImpl(XMLPlatformUtils::fgMemoryManager);
                { SAXParser p(0, XMLPlatformUtils::fgMemoryManager, sh.pool); p.setDoNamespaces(true); p.setDoSchema(true); p.setValidationScheme(SAXParser::Val_Always);
                  MemBufInputSource s1((const XMLByte*)kSchema1, strlen(kSchema1), "s1.xsd"); MemBufInputSource s2((const XMLByte*)kSchema2, strlen(kSchema2), "s2.xsd");
                  p.loadGrammar(s1, Grammar::SchemaGrammarType, true); p.loadGrammar(s2, Grammar::SchemaGrammarType, true); }
                sh.pool->lockPool();
            }
            if (plan.getb("warm")) { Json w = Json::obj(); w.set("op", "regex"); w.set("pattern", "\\p{L}+"); w.set("input", "x"); runOp(w, sh); }
            baton::Cfg bc; const Json& sc = plan.at("sched"); bc.seed = (uint64_t)sc.geti("seed", 1); bc.policy = (int)sc.geti("policy", 0); bc.nthreads = (int)nthreads; bc.pctDepth = (int)sc.geti("pct_depth", 3); bc.burstKeepPermille = (unsigned)sc.geti("burst_keep", 950); bc.allocPointPermille = (unsigned)sc.geti("alloc_points", 50);
            baton::init(bc);
            std::vector<std::thread> ths;
            for (size_t t = 0; t < nthreads; t++) ths.emplace_back(workerMain, (int)t + 1, &plan.at("threads").a[t], &sh, &got[t]);
            result = baton::runAll();
            if (result != 0) {
                // threads are parked for ever: this process cannot go on. Report and leave (the driver re-executes in a fresh child).
                deadlock = baton::deadlockInfo();
                fprintf(stderr, "\nDETAIL %s\nSIMVIOLATION %s\n", deadlock.c_str(), result == 1 ? "deadlock" : "budget"); fflush(stderr); _exit(78);
            }
            for (auto& th : ths) th.join();
            // single-thread oracle: the same operation lists, one after the other, in the same process
            for (size_t t = 0; t < nthreads; t++) for (auto& op : plan.at("threads").a[t].a) want[t].push_back(runOp(op, sh));
            if (sh.pool) { sh.pool->unlockPool(); delete sh.pool; }
        }
        delete XMLPlatformUtils::fgFileMgr; delete XMLPlatformUtils::fgNetAccessor; XMLPlatformUtils::fgFileMgr = origF; XMLPlatformUtils::fgNetAccessor = origN;
        XMLPlatformUtils::Terminate();
        delete mm;
        const baton::Stats& st = baton::stats();
        g_run.ticks = st.steps; g_run.logHash = st.decisionHash;
        static const char* kn[] = { "lock", "unlock", "alloc", "op", "start", "end" };
        uint64_t sw = 0; for (int k = 0; k < baton::K_KINDS; k++) { g_run.probes[std::string("point_") + kn[k]] += st.points[k]; g_run.faults[std::string("preempt_at_") + kn[k]] += st.switches[k]; sw += st.switches[k]; }
        { static uint64_t seen = 0; uint64_t now = sim_icu_converter_calls(); g_run.probes["icu_converter_calls"] += now - seen; seen = now; }
        g_run.probes["lock_contended"] += st.contended; g_run.probes[std::string("policy_") + (plan.at("sched").geti("policy") == 0 ? "uniform" : plan.at("sched").geti("policy") == 1 ? "pct" : "burst")]++; if (sh.pool || plan.getb("shared_pool")) g_run.probe("shared_locked_pool");
        o.nontrivial = sw > nthreads; o.fingerprint = st.decisionHash;
        // ---- verdict: unknown race reports first, then digests, then known findings
        std::string firstKnownCls, firstKnownDetail;
        int g_nReports = baton::reportsCount();
        for (int i = 0; i < g_nReports; i++) {
            const RawReport& r = baton::report(i); std::string c0, c1; std::string a = siteOf(r.pcs[0], &c0), b = r.nmop > 1 ? siteOf(r.pcs[1], &c1) : std::string("?");
            if (b < a) { std::swap(a, b); std::swap(c0, c1); }
            std::string cls = std::string(strcmp(r.desc, "data-race") == 0 ? "race:" : (std::string(r.desc) + ":").c_str()) + a + "|" + b;
            std::string detail = std::string(plan.getb("xml_ranges_only") ? "[workload=xml-ranges-only] " : "") + r.desc + " between [" + c0 + "] and [" + c1 + "]";
            if (getenv("VERIF_LIST_CLASSES")) fprintf(stderr, "CLASS %s || %s\n", cls.c_str(), detail.c_str());
            if (knownFindingMatches(cls, detail)) { if (firstKnownCls.empty()) { firstKnownCls = cls; firstKnownDetail = detail; } continue; }
            o.violated = true; o.cls = cls; o.detail = detail + " (" + std::to_string(g_nReports) + " reports in this run)"; return o;
        }
        for (size_t t = 0; t < nthreads; t++) if (got[t] != want[t]) {
            size_t i = 0; while (i < got[t].size() && i < want[t].size() && got[t][i] == want[t][i]) i++;
            o.violated = true; o.cls = "result-differs-from-single-thread:" + (i < plan.at("threads").a[t].a.size() ? plan.at("threads").a[t].a[i].gets("op") : std::string("?")); o.detail = "thread " + std::to_string(t + 1) + " operation " + std::to_string(i) + " gave a different result than the same operation list run alone"; return o;
        }
        if (!firstKnownCls.empty()) { o.violated = true; o.cls = firstKnownCls; o.detail = firstKnownDetail; }
        return o;
    }

    std::vector<Json> shrinkCandidates(const Json& plan) override {
        std::vector<Json> c; const Json& th = plan.at("threads");
        if (th.a.size() > 2) for (size_t t = 0; t < th.a.size(); t++) { Json p = plan; jsonRemoveAt(p.ref("threads"), t); c.push_back(p); }
        for (size_t t = 0; t < th.a.size(); t++) for (size_t i = 0; i < th.a[t].a.size(); i++) if (th.a[t].a.size() > 1) { Json p = plan; jsonRemoveAt(p.ref("threads").a[t], i); c.push_back(p); }
        if (plan.getb("shared_pool")) { Json p = plan; p.set("shared_pool", false); c.push_back(p); }
        if (plan.at("sched").geti("alloc_points") > 0) { Json p = plan; p.ref("sched").set("alloc_points", 0); c.push_back(p); }
        if (plan.at("sched").geti("policy") != 2) { Json p = plan; p.ref("sched").set("policy", 2); p.ref("sched").set("burst_keep", 990); c.push_back(p); }
        return c;
    }
    Json sampleView(const Json& plan) override { Json p = plan; for (auto& t : p.ref("threads").a) for (auto& op : t.a) if (op.has("resources")) for (auto& r : op.ref("resources").a) { std::string b = r.gets("bytes"); if (b.size() > 160) r.set("bytes", b.substr(0, 160) + "...(" + std::to_string(b.size()) + ")"); } return p; }
};

int main(int argc, char** argv) {
    return driverMain(argc, argv, [](const std::string& p) -> Engine* { if (p == "C17") return new ThreadEngine(); return nullptr; });
}
