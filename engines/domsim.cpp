// domsim: histories of DOM operations on real xerces-c documents, refined step by step against RefDOM.
//   C13  after every operation (incl. forbidden ones, which must throw DOMException and change nothing) the
//        real tree must be structurally consistent and equal to the reference tree
//   C14  live views (node lists, iterators, walkers, ranges) interleaved with mutation by a seeded task scheduler
#include "../sim/parserun.hpp"
#include "../sim/refdom.hpp"
#include <xercesc/dom/DOMNodeIterator.hpp>
#include <xercesc/dom/DOMTreeWalker.hpp>
#include <xercesc/dom/DOMRange.hpp>
#include <xercesc/dom/DOMRangeException.hpp>
#include <unordered_map>

using namespace sim;
using refdom::Node; using refdom::Verdict;

static std::u16string U(const char* s) { return X(s); }
static std::string n8(const std::u16string& s) { return esc8(u8((const XMLCh*)s.data(), s.size())); }
static std::u16string xs(const XMLCh* s) { return s ? std::u16string((const char16_t*)s) : std::u16string(); }

static const char* kNames[] = { "a", "b", "c", "d", "x:y", "_u", "a", "b", "1bad", "b d", "" };
static const char* kTexts[] = { "t", "hello", "", "x y", "0123456789", "<&>", "caf\xc3\xa9", "\xf0\x90\x90\x80z" };

struct Slot { Node* r = nullptr; DOMNode* x = nullptr; bool dead = false; };

struct DomWorld {
    refdom::Model m; std::vector<Slot> slots; std::unordered_map<const DOMNode*, size_t> byX; std::unordered_map<const Node*, size_t> byR;
    std::vector<DOMDocument*> docs;
    size_t add(Node* r, DOMNode* x) { Slot s; s.r = r; s.x = x; slots.push_back(s); byX[x] = slots.size() - 1; byR[r] = slots.size() - 1; return slots.size() - 1; }
    // register a subtree that both sides created in one go (clone / import / split): parallel pre-order walk
    bool addSubtree(Node* r, DOMNode* x, std::string& why) {
        if (!x) { why = "null node returned"; return false; }
        add(r, x); if (r->type == refdom::ATTRIBUTE && x->getNodeType() == DOMNode::ATTRIBUTE_NODE) r->idAttr = ((DOMAttr*)x)->isId();      // whether a copy of an ID attribute is an ID attribute is not specified: adopt the answer
        if (r->type == refdom::ELEMENT) { DOMNamedNodeMap* am = x->getAttributes(); if (!am || am->getLength() != r->attrs.size()) { why = "attribute count of new subtree"; return false; } for (auto a : r->attrs) { std::u16string nm = a->name; DOMNode* xa = am->getNamedItem((const XMLCh*)nm.c_str()); if (!xa) { why = "attribute missing in new subtree"; return false; } if (!addSubtree(a, xa, why)) return false; } }
        if (r->type == refdom::ATTRIBUTE) return true;
        DOMNode* c = x->getFirstChild(); for (auto k : r->kids) { if (!c) { why = "child missing in new subtree"; return false; } if (!addSubtree(k, c, why)) return false; c = c->getNextSibling(); }
        if (c) { why = "extra child in new subtree"; return false; }
        return true;
    }
    void kill(Node* r) { auto it = byR.find(r); if (it == byR.end()) return; Slot& s = slots[it->second]; s.dead = true; byX.erase(s.x); byR.erase(it); for (auto k : r->kids) kill(k); for (auto a : r->attrs) kill(a); }
    Slot* pick(int64_t i) { if (slots.empty()) return nullptr; Slot& s = slots[(size_t)(i < 0 ? -i : i) % slots.size()]; return s.dead ? nullptr : &s; }
    DOMNode* xOf(Node* r) { if (!r) return nullptr; auto it = byR.find(r); return it == byR.end() ? nullptr : slots[it->second].x; }
};

// ---- comparison of the real tree with the reference tree + structural invariants, through public getters only
struct Checker {
    DomWorld& w; std::string cls, detail; size_t budget = 200000;
    explicit Checker(DomWorld& ww) : w(ww) {}
    bool fail(const std::string& c, const std::string& d) { if (cls.empty()) { cls = c; detail = d; } return false; }
    bool node(Node* r, DOMNode* x, DOMNode* expectParent) {
        if (budget-- == 0) return fail("dom:walk-does-not-terminate", "tree walk exceeded its bound (cycle?)");
        if (!x) return fail("dom:missing-node", "reference has node " + n8(r->name) + " but the real tree has none");
        if ((int)x->getNodeType() != r->type) return fail("dom:node-type", "node type " + std::to_string((int)x->getNodeType()) + " vs reference " + std::to_string(r->type));
        if (xs(x->getNodeName()) != r->name) return fail("dom:node-name", "nodeName '" + pu8(x->getNodeName()) + "' vs reference '" + n8(r->name) + "'");
        if (r->type != refdom::ATTRIBUTE && x->getParentNode() != expectParent) return fail("dom:parent-link", "getParentNode() of '" + n8(r->name) + "' does not point to the node that lists it as child");
        if (r->type == refdom::ATTRIBUTE && x->getParentNode() != nullptr) return fail("dom:parent-link", "an attribute has a parent node");
        if (r->isCharData() || r->type == refdom::PI) { if (xs(x->getNodeValue()) != r->value) return fail("dom:value", "nodeValue '" + pu8(x->getNodeValue()) + "' vs reference '" + n8(r->value) + "'"); }
        if (r->type == refdom::ATTRIBUTE) { if (xs(x->getNodeValue()) != refdom::Model::textOf(r)) return fail("dom:attr-value", "attribute '" + n8(r->name) + "' value '" + pu8(x->getNodeValue()) + "' vs reference '" + n8(refdom::Model::textOf(r)) + "'");
            Node* oe = r->ownerElement; if (((DOMAttr*)x)->getOwnerElement() != (DOMElement*)w.xOf(oe)) return fail("dom:owner-element", "getOwnerElement() of attribute '" + n8(r->name) + "' is wrong"); }
        if (r->hasNs || r->type == refdom::ELEMENT || r->type == refdom::ATTRIBUTE) { if (xs(x->getNamespaceURI()) != r->ns) return fail("dom:namespace", "namespaceURI of '" + n8(r->name) + "': '" + pu8(x->getNamespaceURI()) + "' vs reference '" + n8(r->ns) + "'"); }
        if (r->type != refdom::DOCUMENT) { DOMDocument* od = x->getOwnerDocument(); if (od != (DOMDocument*)w.xOf(r->doc)) return fail("dom:owner-document", "ownerDocument of '" + n8(r->name) + "' is not the document the reference says"); }
        else if (x->getOwnerDocument() != nullptr) return fail("dom:owner-document", "a document has an owner document");
        { static const XMLCh k0[] = { 'k', '0', 0 }, k1[] = { 'k', '1', 0 }; for (int ki = 0; ki < 2; ki++) { long got = (long)x->getUserData(ki ? k1 : k0); if (got != r->ud[ki]) return fail("dom:user-data", "getUserData(k" + std::to_string(ki) + ") of '" + n8(r->name) + "' is " + std::to_string(got) + ", reference " + std::to_string(r->ud[ki])); } }
        if (r->type == refdom::DOCUMENT) { Node* de = nullptr; for (auto kid : r->kids) if (kid->type == refdom::ELEMENT) { de = kid; break; } if (((DOMDocument*)x)->getDocumentElement() != (DOMElement*)w.xOf(de)) return fail("dom:document-element", "getDocumentElement() is not the element child of the document"); if (((DOMDocument*)x)->getDoctype() != nullptr) return fail("dom:document-element", "getDoctype() is set although the document has no doctype child"); }
        // attributes as a set
        if (r->type == refdom::ELEMENT) {
            DOMNamedNodeMap* am = x->getAttributes(); XMLSize_t n = am ? am->getLength() : 0;
            if (n != r->attrs.size()) return fail("dom:attr-set", "element '" + n8(r->name) + "' has " + std::to_string(n) + " attributes, reference " + std::to_string(r->attrs.size()));
            for (auto a : r->attrs) { DOMNode* xa = w.xOf(a); bool found = false; for (XMLSize_t i = 0; i < n; i++) if (am->item(i) == xa) found = true; if (!found) return fail("dom:attr-set", "attribute node '" + n8(a->name) + "' of the reference is not in the element's NamedNodeMap"); if (!node(a, xa, nullptr)) return false; }
        } else if (x->getAttributes() && x->getAttributes()->getLength() && r->type != refdom::ELEMENT) return fail("dom:attr-set", "a non-element has attributes");
        if (r->type == refdom::ATTRIBUTE) return true;        // the Text children carrying an attribute's value are not mirrored by the model
        // children: sibling chain forwards and backwards, first/last, childNodes
        DOMNode* c = x->getFirstChild(); DOMNode* prev = nullptr; size_t i = 0;
        for (; c; c = c->getNextSibling(), i++) {
            if (i >= r->kids.size()) return fail("dom:child-list", "'" + n8(r->name) + "' has more children than the reference (" + std::to_string(r->kids.size()) + ")");
            if (c != w.xOf(r->kids[i])) return fail("dom:child-list", "child " + std::to_string(i) + " of '" + n8(r->name) + "' is not the node the reference has there");
            if (c->getPreviousSibling() != prev) return fail("dom:sibling-link", "getPreviousSibling() of child " + std::to_string(i) + " of '" + n8(r->name) + "' is inconsistent with the forward chain");
            if (!node(r->kids[i], c, x)) return false; prev = c;
            if (i > 100000) return fail("dom:walk-does-not-terminate", "sibling chain does not end");
        }
        if (i != r->kids.size()) return fail("dom:child-list", "'" + n8(r->name) + "' has " + std::to_string(i) + " children, reference " + std::to_string(r->kids.size()));
        if (x->getLastChild() != prev) return fail("dom:sibling-link", "getLastChild() of '" + n8(r->name) + "' is not the end of the sibling chain");
        DOMNodeList* cl = x->getChildNodes(); if (cl) { if (cl->getLength() != r->kids.size()) return fail("dom:child-list", "getChildNodes()->getLength() disagrees with the sibling walk"); for (size_t k = 0; k < r->kids.size(); k++) if (cl->item(k) != w.xOf(r->kids[k])) return fail("dom:child-list", "getChildNodes()->item(" + std::to_string(k) + ") disagrees with the sibling walk"); }
        if (x->hasChildNodes() != !r->kids.empty()) return fail("dom:child-list", "hasChildNodes() is wrong");
        return true;
    }
    bool all() {
        for (auto& s : w.slots) { if (s.dead) continue; Node* r = s.r; if (r->parent || r->ownerElement) continue;   // roots only: documents and detached subtrees
            if (!node(r, s.x, nullptr)) return false; }
        return true;
    }
};

#include "../sim/domviews.hpp"

// ---------------------------------------------------------------------------------------------
class DomEngine : public Engine {
public:
    explicit DomEngine(const std::string& p) : prop(p) {}
    std::string property() const override { return prop; }
    std::string rule() const override { if (prop == "C14") return "one run = a seeded interleaving of tree mutations (the C13 operation set, on 1-2 documents) with the creation, stepping and querying of up to 6 NodeIterators, 6 TreeWalkers (whatToShow masks, accept / skip / reject filters), 6 live getElementsByTagName lists, getElementById lookups with ID attributes, and 5 Ranges (boundary setters with arbitrary nodes and offsets, toString, compareBoundaryPoints, clone / extract / delete contents, insertNode, surroundContents, cloneRange, detach); every view operation is executed on the real object and on its reference model over RefDOM and the answers compared; after EVERY step the boundary points, collapsed flag and common ancestor of all ranges and the current node of all walkers are compared, and the C13 tree comparison runs. distinct = plan hash; non-trivial = at least one view operation was executed after at least one successful tree mutation";
        return "one run = a seeded history of DOM Core operations (create*, insertBefore / appendChild / removeChild / replaceChild with operands drawn from ALL live nodes of 1-2 documents and detached subtrees - so forbidden combinations occur naturally -, cloneNode, importNode, adoptNode, attribute set/remove by name and by node, character-data edits with arbitrary offsets, splitText, normalize, setTextContent, release) executed on real xerces-c documents and on the RefDOM reference model; after EVERY step the exception behaviour must agree (a forbidden operation must raise DOMException with an allowed code and leave the tree unchanged) and a parallel walk through public getters must find the real tree structurally consistent and equal to the reference. The first runs of a batch are not sampled but enumerated: every history of length 1 and 2 (thorough: also a slice of length 3) over four binary structural operations with all 81 operand pairs and nine unary operations with all 9 operands, on a fixed world of 9 nodes (document, element tree with text, detached element, fragment with child, detached text). distinct = plan hash; non-trivial = at least one forbidden operation was attempted and at least one structural mutation succeeded"; }
    Json describe() const override {
        Json d = Json::obj(); Json real = Json::arr(); for (auto s : { "DOMDocumentImpl, DOMParentNode, DOMChildNode, DOMNodeImpl, DOMElementImpl/NSImpl, DOMAttrImpl/NSImpl, DOMAttrMapImpl, DOMCharacterDataImpl, DOMTextImpl, DOMCDATASectionImpl, DOMDocumentFragmentImpl, DOMNodeIDMap, DOMStringPool" }) real.push(s);
        Json stub = Json::arr(); stub.push("none (the DOM has no I/O); the reference model RefDOM is the oracle");
        d.set("components_real", real); d.set("components_stubbed", stub); d.set("simulated_time", "logical steps: one per DOM operation");
        Json as = Json::arr(); as.push("RefDOM encodes DOM Level 2/3 Core tree semantics; where the specification leaves the exception precedence open the model accepts any of the codes of the violated preconditions; NOT_SUPPORTED_ERR is accepted as a refusal only for importing / adopting Document and DocumentType nodes"); d.set("assumptions", as); return d;
    }
    void globalInit() override { if (!inited) { XMLPlatformUtils::Initialize(XMLUni::fgXercescDefaultLocale, 0, 0, new CachingGlobalMM()); inited = true; } }
    uint64_t defaultRuns(const std::string& tier) const override { if (prop == "C14") return tier == "quick" ? 300000 : 3000000; return enumCount(tier) + (tier == "quick" ? 200000 : 4000000); }      // C13: the enumerated short histories first, then seeded ones

    // ---- exhaustive part (C13): every history of length 1 and 2 (thorough: also a slice of length 3) of structural operations with
    // ALL operand combinations over a fixed small world: doc#0, root#1[a#2[text#3], b#4], detached element#5, fragment#6[d#7], detached text#8
    static Json mkop(const char* k, long long a, long long b, long long c, int s, int t, int n, int m, bool f) { Json op = Json::obj(); op.set("k", k); op.set("a", a); op.set("b", b); op.set("c", c); op.set("s", s); op.set("t", t); op.set("n", n); op.set("m", m); op.set("f", f); return op; }
    static void prelude(Json& ops) {
        ops.push(mkop("createElement", 0, 0, 0, 0, 0, 0, 0, false)); ops.push(mkop("createText", 0, 0, 0, 0, 0, 0, 0, false)); ops.push(mkop("createElement", 0, 0, 0, 1, 0, 0, 0, false)); ops.push(mkop("createElement", 0, 0, 0, 2, 0, 0, 0, false));
        ops.push(mkop("createFragment", 0, 0, 0, 0, 0, 0, 0, false)); ops.push(mkop("createElement", 0, 0, 0, 3, 0, 0, 0, false)); ops.push(mkop("createText", 0, 0, 0, 0, 1, 0, 0, false));
        ops.push(mkop("appendChild", 1, 2, 0, 0, 0, 0, 0, false)); ops.push(mkop("appendChild", 2, 3, 0, 0, 0, 0, 0, false)); ops.push(mkop("appendChild", 1, 4, 0, 0, 0, 0, 0, false)); ops.push(mkop("appendChild", 6, 7, 0, 0, 0, 0, 0, false));
    }
    enum { ENUM_NODES = 9, ENUM_BIN = 4 * ENUM_NODES * ENUM_NODES, ENUM_UN = 9 * ENUM_NODES, ENUM_OPS = ENUM_BIN + ENUM_UN };
    // the e-th operation of the alphabet: four binary structural operations x 81 operand pairs, nine unary operations x 9 operands
    static Json enumOp(uint64_t e) {
        if (e < ENUM_BIN) { uint64_t kind = e / (ENUM_NODES * ENUM_NODES), ab = e % (ENUM_NODES * ENUM_NODES); long long a = (long long)(ab / ENUM_NODES), b = (long long)(ab % ENUM_NODES);
            switch (kind) { case 0: return mkop("appendChild", a, b, 0, 0, 0, 0, 0, false); case 1: return mkop("insertBefore", a, b, 1, 0, 0, 0, 0, true);      // reference child: a genuine child of A (or root#1, no child of A, when A is childless)
                case 2: return mkop("removeChild", a, b, 0, 0, 0, 0, 0, false); default: return mkop("replaceChild", a, b, 0, 0, 0, 0, 0, true); } }      // replaces the first child of A (or doc#0, no child, when A is childless)
        e -= ENUM_BIN; uint64_t kind = e / ENUM_NODES; long long a = (long long)(e % ENUM_NODES);
        switch (kind) { case 0: return mkop("cloneNode", a, 0, 0, 0, 0, 0, 0, true); case 1: return mkop("cloneNode", a, 0, 0, 0, 0, 0, 0, false); case 2: return mkop("normalize", a, 0, 0, 0, 0, 0, 0, false); case 3: return mkop("splitText", a, 0, 0, 0, 0, 1, 0, false);
            case 4: return mkop("adoptNode", a, 0, 0, 0, 0, 0, 0, false); case 5: return mkop("renameNode", a, 0, 0, 2, 0, 0, 0, false); case 6: return mkop("setTextContent", a, 0, 0, 0, 0, 0, 0, false); case 7: return mkop("importNode", a, 0, 0, 0, 0, 0, 0, true); default: return mkop("renameNode", a, 0, 0, 0, 0, 1, 0, true); }
    }
    static uint64_t enumCount(const std::string& tier) { uint64_t n1 = ENUM_OPS, n2 = (uint64_t)ENUM_BIN * ENUM_BIN + 2ull * ENUM_BIN * ENUM_UN; return tier == "quick" ? n1 + n2 : n1 + n2 + (uint64_t)ENUM_BIN * ENUM_BIN * 36; }
    static Json enumPlan(uint64_t i, const std::string& tier) {
        Json plan = Json::obj(); plan.set("mode", "C13"); plan.set("docs", 1); plan.set("enumerated", true); Json ops = Json::arr(); prelude(ops);
        if (i < ENUM_OPS) { ops.push(enumOp(i)); plan.set("ops", ops); return plan; } i -= ENUM_OPS;
        uint64_t bb = (uint64_t)ENUM_BIN * ENUM_BIN; if (i < bb) { ops.push(enumOp(i / ENUM_BIN)); ops.push(enumOp(i % ENUM_BIN)); plan.set("ops", ops); return plan; } i -= bb;
        uint64_t bu = (uint64_t)ENUM_BIN * ENUM_UN; if (i < bu) { ops.push(enumOp(i / ENUM_UN)); ops.push(enumOp(ENUM_BIN + i % ENUM_UN)); plan.set("ops", ops); return plan; } i -= bu;
        if (i < bu) { ops.push(enumOp(ENUM_BIN + i / ENUM_BIN)); ops.push(enumOp(i % ENUM_BIN)); plan.set("ops", ops); return plan; } i -= bu;
        // thorough: length 3 = any two binary operations followed by one of 36 moves of the nodes 1-4 among each other / into the fragment (appendChild a in {1,2,4,6}, b in 1..8 \ ...)
        (void)tier; uint64_t third = i % 36; i /= 36; ops.push(enumOp(i / ENUM_BIN)); ops.push(enumOp(i % ENUM_BIN)); static const long long parents[] = { 1, 2, 4, 6 }; ops.push(mkop("appendChild", parents[third / 9], (long long)(third % 9), 0, 0, 0, 0, 0, false)); plan.set("ops", ops); return plan;
    }

    Json generate(uint64_t seed, uint64_t index, const std::string& tier) override {
        if (prop == "C13" && index < enumCount(tier)) return enumPlan(index, tier);
        Rng r = runRng(seed, index, "workload"); Json plan = Json::obj(); plan.set("mode", prop);
        plan.set("docs", 1 + (int)r.below(2));
        int n = tier == "quick" ? r.range(3, 40) : (r.chance(1, 20) ? r.range(100, 800) : r.range(3, 80));
        Json ops = Json::arr();
        // a prelude that grows a tree of some depth before the interesting part starts (half of the runs; always most of the C14 runs)
        int grow = r.chance(prop == "C14" ? 4 : 1, prop == "C14" ? 5 : 2) ? r.range(3, 30) : 0;
        for (int i = 0; i < grow; i++) { Json op = Json::obj(); op.set("k", "grow"); op.set("a", (long long)r.below(1000)); op.set("b", 0); op.set("c", 0); op.set("s", 0); op.set("t", (int)r.below(8)); op.set("n", (int)r.below(14)); op.set("m", (int)r.below(8)); op.set("f", false); ops.push(op); }
        // a sixth of the C14 runs concentrate on the ID map: many attributes, ID declarations with few distinct values (so that chains of equal hashes form), removals and lookups
        const bool idHeavy = prop == "C14" && r.chance(1, 6); if (idHeavy) plan.set("id_heavy", true);
        for (int i = 0; i < n; i++) {
            Json op = Json::obj(); unsigned k = (unsigned)r.below(100);
            static const char* kinds[] = { "createElement", "createElementNS", "createText", "createComment", "createCDATA", "createPI", "createFragment", "createAttribute",
                "appendChild", "insertBefore", "removeChild", "replaceChild", "cloneNode", "importNode", "adoptNode", "setAttribute", "removeAttribute", "setAttributeNode", "removeAttributeNode",
                "setData", "appendData", "insertData", "deleteData", "replaceData", "splitText", "normalize", "setTextContent", "release", "renameNode", "setUserData", "createEntityReference" };
            static const unsigned weight[] = { 8, 3, 7, 2, 2, 2, 3, 3, 14, 9, 6, 6, 3, 2, 2, 5, 2, 3, 2, 2, 2, 2, 2, 2, 2, 2, 2, 2, 4, 3, 2 };
            const size_t NK = sizeof(weight) / sizeof(weight[0]); static_assert(sizeof(kinds) / sizeof(kinds[0]) == sizeof(weight) / sizeof(weight[0]), "kinds/weight");
            unsigned tot = 0; for (unsigned wv : weight) tot += wv; (void)k; unsigned pickv = (unsigned)r.below(tot); size_t ki = 0; for (unsigned acc = 0; ki < NK; ki++) { acc += weight[ki]; if (pickv < acc) break; }
            const char* kind = kinds[ki];
            if (prop == "C14") {      // the scheduler gives the view tasks about half of the steps
                static const char* vkinds[] = { "itNew", "itStep", "itDetach", "twNew", "twStep", "liNew", "liItem", "idSet", "idGet", "rgNew", "rgSet", "rgOp", "xpEval", "xpRead" };
                static const unsigned vweight[] = { 4, 14, 1, 4, 14, 3, 8, 3, 4, 4, 12, 10, 7, 3 };
                if (i < 4 && r.chance(1, 2)) { static const char* starters[] = { "itNew", "twNew", "liNew", "rgNew" }; kind = starters[r.below(4)]; }
                else if (r.chance(11, 20)) { unsigned vt = 0; for (unsigned wv : vweight) vt += wv; unsigned pv = (unsigned)r.below(vt); size_t vi = 0; for (unsigned acc = 0; vi < 14; vi++) { acc += vweight[vi]; if (pv < acc) break; } kind = vkinds[vi]; }
                op.set("chk", r.chance(1, 3));
                if (idHeavy && r.chance(1, 2)) { static const char* ik[] = { "setAttribute", "setAttribute", "setAttribute", "idSet", "idSet", "idSet", "idGet", "idGet", "idGet", "removeAttribute", "cloneNode", "release", "appendChild" }; kind = ik[r.below(13)]; }
            }
            op.set("k", kind); op.set("a", (long long)r.below(1000)); op.set("b", (long long)r.below(1000)); op.set("c", (long long)r.below(1000)); op.set("s", (int)r.below(11)); op.set("t", (int)r.below(8)); op.set("n", (int)r.below(14)); op.set("m", (int)r.below(8)); op.set("f", r.coin());
            ops.push(op);
        }
        plan.set("ops", ops);
        return plan;
    }
    std::vector<Json> shrinkCandidates(const Json& plan) override {
        std::vector<Json> c; const Json& ops = plan.at("ops"); size_t n = ops.a.size();
        for (size_t chunk = n / 2; chunk >= 1; chunk /= 2) { for (size_t pos = 0; pos + chunk <= n && c.size() < 300; pos += chunk) { Json p = plan; Json& a = p.ref("ops"); a.a.erase(a.a.begin() + (long)pos, a.a.begin() + (long)(pos + chunk)); c.push_back(p); } if (chunk == 1) break; }
        if (plan.geti("docs") > 1) { Json p = plan; p.set("docs", 1); c.push_back(p); }
        return c;
    }

    Outcome execute(const Json& plan) override {
        Outcome o; o.fingerprint = fnv1a(plan.dump()); g_run.reset(10000000);
        DomWorld w; static const XMLCh ls[] = { 'L', 'S', 0 }; DOMImplementation* impl = DOMImplementationRegistry::getDOMImplementation(ls);
        int ndocs = (int)plan.geti("docs", 1);
        for (int d = 0; d < ndocs; d++) { std::u16string rn = U(d ? "root2" : "root"); DOMDocument* xd = impl->createDocument(0, (const XMLCh*)rn.c_str(), 0); w.docs.push_back(xd); Node* rd = w.m.make(refdom::DOCUMENT, nullptr, u"#document"); w.add(rd, xd); Node* re = w.m.make(refdom::ELEMENT, rd, rn); re->parent = rd; rd->kids.push_back(re); w.add(re, xd->getDocumentElement()); }
        int step = 0; size_t forbidden = 0, mutated = 0, viewOps = 0, viewOpsAfterMutation = 0; bool c14 = prop == "C14"; if (plan.getb("id_heavy")) g_run.probe("id_heavy_runs");
        { Views vs(w); views = c14 ? &vs : nullptr;
        for (auto& op : plan.at("ops").a) {
            step++; g_run.tick(); std::string k = op.gets("k"); std::string err; bool handled = false;
            if (c14) { size_t before = viewOps; err = vs.run(op, k, handled, forbidden, viewOps); if (viewOps > before && mutated > 0) viewOpsAfterMutation++; }
            if (!handled) err = runOp(w, op, k, forbidden, mutated);
            g_run.ev(k.c_str(), w.slots.size(), (forbidden << 40) ^ (mutated << 20) ^ viewOps);      // event log: what ran and how it ended (refused / mutated / observed), for the same-plan-twice gate
            if (getenv("DOMSIM_TRACE")) { std::function<std::string(Node*)> dump = [&](Node* n) { std::string s = "#" + std::to_string(n->id) + ":" + (n->type == refdom::ELEMENT ? n8(n->name) : n->type == refdom::TEXT ? "T" : n->type == refdom::COMMENT ? "C" : n->type == refdom::DOCUMENT ? "DOC" : n->type == refdom::FRAGMENT ? "FRAG" : "t" + std::to_string(n->type)); if (!n->kids.empty()) { s += "["; for (auto kk : n->kids) s += dump(kk) + " "; s += "]"; } return s; }; std::string all; for (auto& s : w.slots) if (!s.dead && !s.r->parent && !s.r->ownerElement && (s.r->type == refdom::DOCUMENT || !s.r->kids.empty())) all += dump(s.r) + "  "; fprintf(stderr, "TREE  %s\n", all.c_str()); }
            if (!err.empty()) { size_t bar = err.find('|'); o.violated = true; o.cls = err.substr(0, bar); o.detail = "step " + std::to_string(step) + " (" + k + "): " + (bar == std::string::npos ? "" : err.substr(bar + 1)); break; }
            Checker ck(w); if (!ck.all()) { o.violated = true; o.cls = ck.cls; o.detail = "after step " + std::to_string(step) + " (" + k + "): " + ck.detail; break; }
            if (c14) { err = vs.check(op.getb("chk")); if (!err.empty()) { size_t bar = err.find('|'); o.violated = true; o.cls = err.substr(0, bar); o.detail = "after step " + std::to_string(step) + " (" + k + "): " + err.substr(bar + 1); break; } }
        }
        views = nullptr; }
        o.nontrivial = c14 ? viewOpsAfterMutation > 0 : (forbidden > 0 && mutated > 0); g_run.probes["forbidden_ops_attempted"] += forbidden; g_run.probes["mutations_done"] += mutated; if (c14) g_run.probes["view_ops"] += viewOps;
        // release everything (documents own their nodes)
        for (auto d : w.docs) d->release();
        return o;
    }

private:
    std::string prop; bool inited = false; Views* views = nullptr;

    static bool allowedCode(const Verdict& v, int code) { return v.errs.count(code) > 0; }
    // executes one operation on both sides; returns "" or "class|detail"
    std::string runOp(DomWorld& w, const Json& op, const std::string& k, size_t& forbidden, size_t& mutated) {
        Slot* A = w.pick(op.geti("a")); Slot* B = w.pick(op.geti("b")); Slot* C = w.pick(op.geti("c"));
        std::u16string name = U(kNames[op.geti("s") % 11]), text = U(kTexts[op.geti("t") % 8]); int n = (int)op.geti("n"), m = (int)op.geti("m"); bool flag = op.getb("f");
        if (n == 13 && op.geti("t") >= 6) text = std::u16string(4500, u'L') + text;      // now and then a text longer than the fixed-size scratch buffers some DOM code uses
        DOMDocument* xd = w.docs[(size_t)op.geti("a") % w.docs.size()]; Node* rd = w.slots[w.byX[xd]].r;
        Verdict v; int got = 0; bool threw = false; std::string what;
        static const bool trace = getenv("DOMSIM_TRACE") != nullptr;
        if (trace) { auto d = [&](Slot* s) { return s ? "#" + std::to_string(s->r->id) + "(t" + std::to_string(s->r->type) + " '" + n8(s->r->name) + "' parent " + (s->r->parent ? "#" + std::to_string(s->r->parent->id) : "-") + " doc#" + std::to_string(s->r->doc ? s->r->doc->id : -1) + ")" : std::string("dead"); }; fprintf(stderr, "TRACE %s A=%s B=%s C=%s flag=%d name='%s' n=%d m=%d\n", k.c_str(), d(A).c_str(), d(B).c_str(), d(C).c_str(), (int)flag, n8(name).c_str(), n, m); }
        auto outcome = [&](const char* opn) -> std::string {
            g_run.probes[std::string("op:") + opn]++;
            if (!v.ok()) { forbidden++; g_run.fault(v.errs.count(refdom::HIERARCHY_REQUEST_ERR) ? "forbidden-op:hierarchy" : v.errs.count(refdom::WRONG_DOCUMENT_ERR) ? "forbidden-op:wrong-document" : v.errs.count(refdom::NOT_FOUND_ERR) ? "forbidden-op:not-a-child" : v.errs.count(refdom::INDEX_SIZE_ERR) ? "forbidden-op:offset-out-of-range" : v.errs.count(refdom::NO_MODIFICATION_ALLOWED_ERR) ? "forbidden-op:read-only-target" : v.errs.count(refdom::INVALID_CHARACTER_ERR) || v.errs.count(refdom::NAMESPACE_ERR) ? "forbidden-op:invalid-name" : "forbidden-op:other");
                if (!threw) return std::string("dom:forbidden-op-accepted:") + opn + "|the specification forbids this call (" + describe(v) + ") but no DOMException was raised";
                if (!allowedCode(v, got)) return std::string("dom:wrong-exception-code:") + opn + "|DOMException code " + std::to_string(got) + " raised, the violated preconditions allow " + describe(v);
                return ""; }
            if (threw && v.refusal.count(got)) { g_run.probe("tolerated_refusal"); v.add(got); return ""; }      // caller skips the model step (v is no longer ok)
            if (threw) return std::string("dom:unexpected-exception:") + opn + "|DOMException code " + std::to_string(got) + " (" + what + ") for a call the specification allows";
            return "";
        };
#define TRY(stmt) try { stmt; } catch (const DOMException& e) { threw = true; got = (int)e.code; what = pu8(e.getMessage()); }
        if (k == "createElement") { if (!refdom::validName(name)) v.add(refdom::INVALID_CHARACTER_ERR); DOMNode* x = nullptr; TRY(x = xd->createElement((const XMLCh*)name.c_str())); std::string e = outcome("createElement"); if (!e.empty() || !v.ok()) return e; Node* r = w.m.make(refdom::ELEMENT, rd, name); w.add(r, x); return ""; }
        if (k == "createElementNS") {
            static const char* nss[] = { "urn:a", "urn:b", "", "http://www.w3.org/XML/1998/namespace" }; std::u16string ns = U(nss[m % 4]); static const char* qn[] = { "p:e", "e", "q:f", "xml:g", "1x" }; std::u16string q = U(qn[n % 5]);
            bool hasPrefix = q.find(u':') != std::u16string::npos; std::u16string prefix = hasPrefix ? q.substr(0, q.find(u':')) : u"";
            if (!refdom::validName(q)) v.add(refdom::INVALID_CHARACTER_ERR); else { if (hasPrefix && ns.empty()) v.add(refdom::NAMESPACE_ERR); if (prefix == u"xml" && ns != U("http://www.w3.org/XML/1998/namespace")) v.add(refdom::NAMESPACE_ERR); }
            DOMNode* x = nullptr; TRY(x = xd->createElementNS(ns.empty() ? nullptr : (const XMLCh*)ns.c_str(), (const XMLCh*)q.c_str())); std::string e = outcome("createElementNS"); if (!e.empty() || !v.ok()) return e; Node* r = w.m.make(refdom::ELEMENT, rd, q); r->ns = ns; r->hasNs = true; w.add(r, x); return ""; }
        if (k == "createText" || k == "createComment" || k == "createCDATA") { int t = k == "createText" ? refdom::TEXT : k == "createComment" ? refdom::COMMENT : refdom::CDATA; DOMNode* x = nullptr;
            TRY(x = t == refdom::TEXT ? (DOMNode*)xd->createTextNode((const XMLCh*)text.c_str()) : t == refdom::COMMENT ? (DOMNode*)xd->createComment((const XMLCh*)text.c_str()) : (DOMNode*)xd->createCDATASection((const XMLCh*)text.c_str()));
            std::string e = outcome(k.c_str()); if (!e.empty()) return e; Node* r = w.m.make(t, rd, t == refdom::TEXT ? u"#text" : t == refdom::COMMENT ? u"#comment" : u"#cdata-section", text); w.add(r, x); return ""; }
        if (k == "createPI") { if (!refdom::validName(name)) v.add(refdom::INVALID_CHARACTER_ERR); DOMNode* x = nullptr; TRY(x = xd->createProcessingInstruction((const XMLCh*)name.c_str(), (const XMLCh*)text.c_str())); std::string e = outcome("createPI"); if (!e.empty() || !v.ok()) return e; Node* r = w.m.make(refdom::PI, rd, name, text); w.add(r, x); return ""; }
        if (k == "createFragment") { DOMNode* x = nullptr; TRY(x = xd->createDocumentFragment()); std::string e = outcome("createFragment"); if (!e.empty()) return e; w.add(w.m.make(refdom::FRAGMENT, rd, u"#document-fragment"), x); return ""; }
        if (k == "createAttribute") { if (!refdom::validName(name)) v.add(refdom::INVALID_CHARACTER_ERR); DOMNode* x = nullptr; TRY(x = xd->createAttribute((const XMLCh*)name.c_str())); std::string e = outcome("createAttribute"); if (!e.empty() || !v.ok()) return e; w.add(w.m.make(refdom::ATTRIBUTE, rd, name), x); return ""; }
        if (k == "appendChild" || k == "insertBefore") {
            if (!A || !B) return ""; Slot* R = (k == "insertBefore" && flag) ? C : nullptr; if (k == "insertBefore" && flag && !C) return "";
            if (R && !A->r->kids.empty() && (op.geti("c") & 1)) { Node* kid = A->r->kids[(size_t)op.geti("c") % A->r->kids.size()]; R = &w.slots[w.byR[kid]]; }     // half of the time a genuine child as reference
            if (R && R->r == B->r) return "";       // insertBefore(x, x): the specification calls it implementation dependent
            if (A->r->type == refdom::ATTRIBUTE) return "";      // children of attributes are not modelled
            v = w.m.checkInsert(A->r, B->r, R ? R->r : nullptr); if (v.open) return "";
            TRY(if (k == "appendChild") A->x->appendChild(B->x); else A->x->insertBefore(B->x, R ? R->x : nullptr));
            std::string e = outcome(k.c_str()); if (!e.empty() || !v.ok()) return e; w.m.doInsert(A->r, B->r, R ? R->r : nullptr); mutated++; return ""; }
        if (k == "removeChild") { if (!A || !B) return ""; Slot* ch = B; if (!A->r->kids.empty() && flag) ch = &w.slots[w.byR[A->r->kids[(size_t)op.geti("b") % A->r->kids.size()]]]; if (A->r->type == refdom::ATTRIBUTE) return "";
            if (ch->r->parent != A->r) v.add(refdom::NOT_FOUND_ERR); if (A->r->readOnly) v.add(refdom::NO_MODIFICATION_ALLOWED_ERR); TRY(A->x->removeChild(ch->x)); std::string e = outcome("removeChild"); if (!e.empty() || !v.ok()) return e; w.m.removeNode(ch->r); mutated++; return ""; }
        if (k == "replaceChild") { if (!A || !B || !C) return ""; Slot* old = C; if (!A->r->kids.empty() && flag) old = &w.slots[w.byR[A->r->kids[(size_t)op.geti("c") % A->r->kids.size()]]]; if (A->r->type == refdom::ATTRIBUTE) return ""; if (old->r == B->r) return "";
            Verdict pre; if (old->r->parent != A->r) pre.add(refdom::NOT_FOUND_ERR); if (A->r->readOnly) pre.add(refdom::NO_MODIFICATION_ALLOWED_ERR); Verdict c2 = w.m.checkInsert(A->r, B->r, nullptr, old->r->parent == A->r ? old->r : nullptr); if (c2.open) return ""; for (int x : c2.errs) pre.add(x); if (!pre.ok()) { for (int x : c2.refusal) pre.add(x); } else pre.refusal = c2.refusal; v = pre;
            TRY(A->x->replaceChild(B->x, old->x)); std::string e = outcome("replaceChild"); if (!e.empty() || !v.ok()) return e; w.m.replaceChild(A->r, B->r, old->r); mutated++; return ""; }
        if (k == "cloneNode") { if (!A) return ""; if (A->r->type == refdom::DOCUMENT) return ""; DOMNode* x = nullptr; TRY(x = A->x->cloneNode(flag)); std::string e = outcome("cloneNode"); if (!e.empty()) return e; Node* r = w.m.cloneRec(A->r, A->r->doc, flag); std::string why; if (!w.addSubtree(r, x, why)) return "dom:clone-shape|cloneNode(" + std::string(flag ? "deep" : "shallow") + ") result differs from the reference: " + why; return ""; }
        if (k == "importNode") { if (!A) return ""; if (A->r->type == refdom::DOCUMENT || A->r->type == refdom::DOCUMENT_TYPE) { v.add(refdom::NOT_SUPPORTED_ERR); } DOMNode* x = nullptr; TRY(x = xd->importNode(A->x, flag)); std::string e = outcome("importNode"); if (!e.empty() || !v.ok()) return e; Node* r = w.m.cloneRec(A->r, rd, flag); std::string why; if (!w.addSubtree(r, x, why)) return "dom:import-shape|importNode result differs from the reference: " + why; return ""; }
        if (k == "adoptNode") { if (!A) return ""; if (A->r->type == refdom::ENTITY_REFERENCE) return ""; if (A->r->type == refdom::DOCUMENT || A->r->type == refdom::DOCUMENT_TYPE) v.add(refdom::NOT_SUPPORTED_ERR); DOMNode* x = nullptr; TRY(x = xd->adoptNode(A->x)); if (!threw && x == nullptr && !v.ok()) { forbidden++; g_run.probe("tolerated_refusal"); return ""; }      // Document / DocumentType: refusing with null instead of NOT_SUPPORTED_ERR
            std::string e = outcome("adoptNode"); if (!e.empty() || !v.ok()) return e;
            // "returns the adopted node, or null if this operation fails": null is a refusal (the tree must be unchanged, which the walk below checks)
            // xerces-c documents that it cannot adopt a node of another document (the node lives in that document's memory pool)
            if (x == nullptr) { if (A->r->doc != rd) { g_run.probe("tolerated_refusal"); return ""; } return "dom:adopt-refused|adoptNode returned null for a node of its own document (type " + std::to_string(A->r->type) + ")"; }
            if (x != A->x) return "dom:adopt-identity|adoptNode returned a different node";
            if (A->r->type == refdom::ATTRIBUTE && A->r->ownerElement) { auto& av = A->r->ownerElement->attrs; av.erase(std::find(av.begin(), av.end(), A->r)); A->r->ownerElement = nullptr; } w.m.removeNode(A->r); refdom::Model::setDocRec(A->r, rd); mutated++; return ""; }
        if (k == "setAttribute") { if (!A || A->r->type != refdom::ELEMENT) return ""; if (!refdom::validName(name)) v.add(refdom::INVALID_CHARACTER_ERR); TRY(((DOMElement*)A->x)->setAttribute((const XMLCh*)name.c_str(), (const XMLCh*)text.c_str())); std::string e = outcome("setAttribute"); if (!e.empty() || !v.ok()) return e;
            Node* a = w.m.findAttr(A->r, name); if (!a) { a = w.m.make(refdom::ATTRIBUTE, A->r->doc, name); a->ownerElement = A->r; A->r->attrs.push_back(a); DOMNode* xa = ((DOMElement*)A->x)->getAttributeNode((const XMLCh*)name.c_str()); if (!xa) return "dom:attr-set|setAttribute did not create an attribute node"; w.add(a, xa); }
            w.m.setAttrValue(a, text); mutated++; return ""; }
        if (k == "removeAttribute") { if (!A || A->r->type != refdom::ELEMENT) return ""; TRY(((DOMElement*)A->x)->removeAttribute((const XMLCh*)name.c_str())); std::string e = outcome("removeAttribute"); if (!e.empty()) return e; Node* a = w.m.findAttr(A->r, name); if (a) { auto& av = A->r->attrs; av.erase(std::find(av.begin(), av.end(), a)); a->ownerElement = nullptr; w.kill(a); mutated++; } return ""; }     // removeAttribute() returns nothing: xerces-c releases the removed Attr node, so it leaves the live set
        if (k == "setAttributeNode") { if (!A || !B || A->r->type != refdom::ELEMENT || B->r->type != refdom::ATTRIBUTE) return ""; if (B->r->doc != A->r->doc) v.add(refdom::WRONG_DOCUMENT_ERR); if (B->r->ownerElement && B->r->ownerElement != A->r) v.add(refdom::INUSE_ATTRIBUTE_ERR);
            { int sameName = 0; for (auto a : A->r->attrs) if (a != B->r && a->name == B->r->name) sameName++; if (sameName > 1) return ""; }     // two attributes with this nodeName in different namespaces: which one setAttributeNode replaces is open
            TRY(((DOMElement*)A->x)->setAttributeNode((DOMAttr*)B->x)); std::string e = outcome("setAttributeNode"); if (!e.empty() || !v.ok()) return e;
            if (B->r->ownerElement == A->r) return ""; Node* old = w.m.findAttr(A->r, B->r->name); if (old) { auto& av = A->r->attrs; av.erase(std::find(av.begin(), av.end(), old)); old->ownerElement = nullptr; } B->r->ownerElement = A->r; A->r->attrs.push_back(B->r); mutated++; return ""; }
        if (k == "removeAttributeNode") { if (!A || !B || A->r->type != refdom::ELEMENT || B->r->type != refdom::ATTRIBUTE) return ""; Slot* at = B; if (!A->r->attrs.empty() && flag) at = &w.slots[w.byR[A->r->attrs[(size_t)op.geti("b") % A->r->attrs.size()]]]; if (at->r->ownerElement != A->r) v.add(refdom::NOT_FOUND_ERR);
            TRY(((DOMElement*)A->x)->removeAttributeNode((DOMAttr*)at->x)); std::string e = outcome("removeAttributeNode"); if (!e.empty() || !v.ok()) return e; auto& av = A->r->attrs; av.erase(std::find(av.begin(), av.end(), at->r)); at->r->ownerElement = nullptr; mutated++; return ""; }
        if (k == "setData" || k == "appendData" || k == "insertData" || k == "deleteData" || k == "replaceData") {
            if (!A || !A->r->isCharData()) return ""; DOMCharacterData* cd = (DOMCharacterData*)A->x; size_t len = A->r->value.size(); size_t off = (size_t)n, cnt = (size_t)m;
            if (A->r->parent && A->r->parent->type == refdom::ATTRIBUTE) return "";
            if (k == "setData") { TRY(cd->setData((const XMLCh*)text.c_str())); std::string e = outcome("setData"); if (!e.empty()) return e; w.m.replaceData(A->r, 0, len, text); }
            else if (k == "appendData") { TRY(cd->appendData((const XMLCh*)text.c_str())); std::string e = outcome("appendData"); if (!e.empty()) return e; w.m.replaceData(A->r, len, 0, text); }
            else { if (off > len) v.add(refdom::INDEX_SIZE_ERR);
                if (k != "insertData" && op.geti("t") % 8 == 7) { cnt = (size_t)-1 - (size_t)(m % 3); g_run.probe("huge_count"); }      // the "up to the end" idiom: a count near SIZE_MAX (offset + count wraps)
                if (k != "insertData" && off <= len) { const XMLCh* sub = nullptr; bool t2 = false; try { sub = cd->substringData(off, cnt); } catch (const DOMException&) { t2 = true; }
                    std::u16string want = A->r->value.substr(off, std::min(cnt, len - off)); if (t2 || !sub || std::u16string((const char16_t*)sub) != want) return "dom:substring-data|substringData(" + std::to_string(off) + ", " + std::to_string(cnt) + ") of a node with " + std::to_string(len) + " characters " + (t2 ? "threw" : "returned '" + (sub ? n8(std::u16string((const char16_t*)sub)) : std::string("null")) + "'") + ", expected '" + n8(want) + "'"; }
                if (k == "insertData") { TRY(cd->insertData(off, (const XMLCh*)text.c_str())); std::string e = outcome("insertData"); if (!e.empty() || !v.ok()) return e; w.m.replaceData(A->r, off, 0, text); }
                else if (k == "deleteData") { TRY(cd->deleteData(off, cnt)); std::string e = outcome("deleteData"); if (!e.empty() || !v.ok()) return e; w.m.replaceData(A->r, off, cnt, u""); }
                else { TRY(cd->replaceData(off, cnt, (const XMLCh*)text.c_str())); std::string e = outcome("replaceData"); if (!e.empty() || !v.ok()) return e; w.m.replaceData(A->r, off, cnt, u""); w.m.replaceData(A->r, off, 0, text); } }      // replaceData = deleteData, then insertData
            mutated++; return ""; }
        if (k == "splitText") { if (!A || (A->r->type != refdom::TEXT && A->r->type != refdom::CDATA)) return ""; if (A->r->parent && A->r->parent->type == refdom::ATTRIBUTE) return ""; size_t off = (size_t)n; if (off > A->r->value.size()) v.add(refdom::INDEX_SIZE_ERR); DOMNode* x = nullptr;
            TRY(x = ((DOMText*)A->x)->splitText(off)); std::string e = outcome("splitText"); if (!e.empty() || !v.ok()) return e; Node* r = w.m.splitText(A->r, off); w.add(r, x); mutated++; return ""; }
        if (k == "normalize") { if (!A) return ""; if (A->r->type == refdom::ATTRIBUTE) return ""; TRY(A->x->normalize()); std::string e = outcome("normalize"); if (!e.empty()) return e; w.m.merged.clear(); w.m.normalize(A->r); mutated++; return ""; }      // the Text nodes that normalize() takes out of the tree are not released: they stay live, detached
        if (k == "setTextContent") { if (!A) return ""; int t = A->r->type; if (t == refdom::DOCUMENT || t == refdom::DOCUMENT_TYPE || t == refdom::ATTRIBUTE || t == refdom::ENTITY_REFERENCE) return ""; TRY(A->x->setTextContent((const XMLCh*)text.c_str())); std::string e = outcome("setTextContent"); if (!e.empty()) return e;
            if (A->r->isCharData() || t == refdom::PI) w.m.replaceData(A->r, 0, A->r->value.size(), text); else { while (!A->r->kids.empty()) w.m.removeNode(A->r->kids[0]);      // the former children stay live, detached
                if (!text.empty()) { Node* tn = w.m.make(refdom::TEXT, A->r->doc, u"#text", text); w.m.insertAt(A->r, tn, 0); if (!A->x->getFirstChild()) return "dom:text-content|setTextContent with a non-empty string left no child"; Slot* keep = A; (void)keep; DOMNode* fc = A->x->getFirstChild(); w.add(tn, fc); } }
            mutated++; return ""; }
        if (k == "grow") {      // tree builder used at the start of a run: append a new element / text / comment to an element (A if it is one, else the document element)
            Node* pr = (A && A->r->type == refdom::ELEMENT) ? A->r : nullptr; if (!pr) { for (auto kid : rd->kids) if (kid->type == refdom::ELEMENT) pr = kid; } if (!pr) return "";
            DOMNode* px = w.xOf(pr); Node* prd = pr->doc; DOMDocument* pxd = (DOMDocument*)w.xOf(prd); int kind = n % 6; static const char* en[] = { "a", "b", "c", "d" }; std::u16string en16 = U(en[m % 4]); DOMNode* x = nullptr; Node* r = nullptr;
            if (kind <= 2) { x = pxd->createElement((const XMLCh*)en16.c_str()); r = w.m.make(refdom::ELEMENT, prd, en16); } else if (kind <= 4) { x = pxd->createTextNode((const XMLCh*)text.c_str()); r = w.m.make(refdom::TEXT, prd, u"#text", text); } else { x = pxd->createComment((const XMLCh*)text.c_str()); r = w.m.make(refdom::COMMENT, prd, u"#comment", text); }
            px->appendChild(x); w.m.insertAt(pr, r, pr->kids.size()); w.add(r, x); mutated++; return ""; }
        if (k == "createEntityReference") { if (!refdom::validName(name)) v.add(refdom::INVALID_CHARACTER_ERR); DOMNode* x = nullptr; TRY(x = xd->createEntityReference((const XMLCh*)name.c_str())); std::string e = outcome("createEntityReference"); if (!e.empty() || !v.ok()) return e; Node* r = w.m.make(refdom::ENTITY_REFERENCE, rd, name); r->readOnly = true; w.add(r, x); return ""; }
        if (k == "setUserData") { if (!A) return ""; int key = n & 1; long val = (op.geti("c") % 6 == 5) ? 0 : 1 + (long)(op.geti("c") % 5); static const XMLCh k0[] = { 'k', '0', 0 }, k1[] = { 'k', '1', 0 }; void* prev = nullptr;
            TRY(prev = A->x->setUserData(key ? k1 : k0, (void*)val, nullptr)); std::string e = outcome("setUserData"); if (!e.empty()) return e;
            if ((long)prev != A->r->ud[key]) return "dom:user-data|setUserData returned " + std::to_string((long)prev) + " as previous value, the reference has " + std::to_string(A->r->ud[key]);
            A->r->ud[key] = val; return ""; }
        if (k == "renameNode") { if (!A) return ""; Node* r = A->r; bool useNs = flag;
            static const char* nss[] = { "urn:a", "urn:b", "", "http://www.w3.org/XML/1998/namespace" }; static const char* qn[] = { "p:e", "e", "q:f", "xml:g", "1x", "p:" };
            std::u16string ns = useNs ? U(nss[m % 4]) : u"", q = useNs ? U(qn[n % 6]) : name; size_t colon = q.find(u':'); bool hasPrefix = colon != std::u16string::npos; std::u16string prefix = hasPrefix ? q.substr(0, colon) : u"", local = hasPrefix ? q.substr(colon + 1) : q;
            if (r->type == refdom::DOCUMENT || r->doc != rd) v.add(refdom::WRONG_DOCUMENT_ERR);
            if (r->type != refdom::ELEMENT && r->type != refdom::ATTRIBUTE) v.add(refdom::NOT_SUPPORTED_ERR);
            if (!refdom::validName(q)) { v.add(refdom::INVALID_CHARACTER_ERR); v.add(refdom::NAMESPACE_ERR); }     // not a Name is also not a QName: either code
            else if (hasPrefix && ns.empty()) { if (v.ok()) v.refusal.insert(refdom::NAMESPACE_ERR); else v.add(refdom::NAMESPACE_ERR); }   // null namespace and a name with a colon: xerces-c treats the call like createElement(name) (DOM Level 1 name, no namespace processing) for Level-1 nodes and refuses it for namespace-aware ones; both tolerated
            else if (hasPrefix && (prefix.empty() || local.empty() || !refdom::validName(local))) v.add(refdom::NAMESPACE_ERR);
            else if (prefix == u"xml" && ns != U("http://www.w3.org/XML/1998/namespace")) v.add(refdom::NAMESPACE_ERR);
            // which attribute of the owner element the renamed one displaces: by nodeName (setAttributeNode) or by namespace + local name (setAttributeNodeNS); skip where the two rules disagree
            Node* displaced = nullptr; if (v.ok() && r->type == refdom::ATTRIBUTE && r->ownerElement) { Node* byName = nullptr; Node* byNs = nullptr; for (auto a : r->ownerElement->attrs) { if (a == r) continue; if (a->name == q) byName = a; size_t ac = a->name.find(u':'); std::u16string al = ac == std::u16string::npos ? a->name : a->name.substr(ac + 1); if (a->ns == ns && al == local) byNs = a; } if (byName != byNs) return ""; displaced = byName; }
            DOMNode* x = nullptr; TRY(x = xd->renameNode(A->x, ns.empty() ? nullptr : (const XMLCh*)ns.c_str(), (const XMLCh*)q.c_str())); std::string e = outcome("renameNode"); if (!e.empty() || !v.ok()) return e;
            if (!x) return "dom:rename-null|renameNode returned null";
            if (x != A->x) {      // "if simply changing the name is not possible a new node is created": the old node is removed from its parent, children, attributes and user data move to the new node, which takes the old node's place; the old node stays alive, detached and empty
                g_run.probe("rename_created_new_node"); Node* nr = w.m.make(r->type, r->doc, q); nr->ns = ns; nr->hasNs = !ns.empty(); nr->ud[0] = r->ud[0]; nr->ud[1] = r->ud[1]; r->ud[0] = r->ud[1] = 0;
                if (r->type == refdom::ELEMENT) { Node* parent = r->parent; Node* nextSib = r->next(); w.m.removeNode(r); while (!r->kids.empty()) { Node* c = r->kids[0]; w.m.removeNode(c); w.m.insertAt(nr, c, nr->kids.size()); } if (parent) w.m.insertAt(parent, nr, nextSib ? (size_t)nextSib->indexInParent() : parent->kids.size()); nr->attrs = r->attrs; r->attrs.clear(); for (auto a : nr->attrs) a->ownerElement = nr; }
                else { Node* oe = r->ownerElement; nr->value = r->value; r->value.clear(); if (oe) { auto& av = oe->attrs; av.erase(std::find(av.begin(), av.end(), r)); r->ownerElement = nullptr; if (displaced) { av.erase(std::find(av.begin(), av.end(), displaced)); displaced->ownerElement = nullptr; g_run.probe("rename_displaced_attribute"); } av.push_back(nr); nr->ownerElement = oe; } }
                if (nr->type == refdom::ATTRIBUTE) nr->idAttr = ((DOMAttr*)x)->isId();
                w.add(nr, x); mutated++; return ""; }
            if (r->type == refdom::ATTRIBUTE) r->idAttr = ((DOMAttr*)x)->isId();      // whether a renamed attribute is still an ID attribute is not specified: adopt the answer
            r->name = q; r->ns = ns; r->hasNs = !ns.empty(); if (displaced) { auto& av = r->ownerElement->attrs; av.erase(std::find(av.begin(), av.end(), displaced)); displaced->ownerElement = nullptr; g_run.probe("rename_displaced_attribute"); }
            mutated++; return ""; }
        if (k == "release") { if (!A) return ""; Node* r = A->r; if (r->type == refdom::DOCUMENT || r->parent || r->ownerElement) return ""; if (views && views->referenced(r)) return "";      // (a node that a live view still refers to is not released) only detached subtrees are released in this harness (release of attached nodes is INVALID_ACCESS, not modelled)
            TRY(A->x->release()); std::string e = outcome("release"); if (!e.empty()) return e; w.kill(r); return ""; }
#undef TRY
        return "";
    }
    static std::string describe(const Verdict& v) { std::string s; for (int e : v.errs) { if (!s.empty()) s += " or "; s += e == 1 ? "INDEX_SIZE_ERR" : e == 3 ? "HIERARCHY_REQUEST_ERR" : e == 4 ? "WRONG_DOCUMENT_ERR" : e == 5 ? "INVALID_CHARACTER_ERR" : e == 8 ? "NOT_FOUND_ERR" : e == 9 ? "NOT_SUPPORTED_ERR" : e == 10 ? "INUSE_ATTRIBUTE_ERR" : e == 14 ? "NAMESPACE_ERR" : std::to_string(e); } return s; }
};

int main(int argc, char** argv) {
    return driverMain(argc, argv, [](const std::string& p) -> Engine* { if (p == "C13" || p == "C14") return new DomEngine(p); return nullptr; });
}
