// streamsim: C04 (chunking / buffer alignment / source type independence), C02 (torn-document slice),
// C01 (fault-reachable safety slice). Real xerces-c parsers over simulated streams, file system and network.
#include "../sim/parserun.hpp"
#include "../sim/schedgen.hpp"
#include "../sim/schemaworld.hpp"

using namespace sim;


static std::string firstDiff(const std::string& a, const std::string& b, std::string& detail) {
    size_t i = 0, la = 0, lb = 0; int line = 1;
    while (i < a.size() && i < b.size() && a[i] == b[i]) { if (a[i] == '\n') { la = lb = i + 1; line++; } i++; }
    size_t ea = a.find('\n', la), eb = b.find('\n', lb);
    std::string x = a.substr(la, ea == std::string::npos ? std::string::npos : ea - la), y = b.substr(lb, eb == std::string::npos ? std::string::npos : eb - lb);
    detail = "line " + std::to_string(line) + ": reference=<" + x.substr(0, 300) + "> variant=<" + y.substr(0, 300) + ">";
    std::string tok = x.substr(0, x.find(' ')); if (tok.empty()) tok = y.substr(0, y.find(' ')); if (tok.empty()) tok = "eof";
    for (auto& c : tok) if (!isalnum((unsigned char)c)) c = '_';
    return tok;
}

// Strict validity of a byte string in the encoding the generator used (only the self-describing ones are judged).
static bool strictlyValid(const std::string& s, const std::string& enc) {
    const unsigned char* p = (const unsigned char*)s.data(); size_t n = s.size();
    if (enc == "UTF-8") {
        size_t i = 0; while (i < n) { unsigned c = p[i];
            if (c < 0x80) { i++; continue; }
            int len = c >= 0xF0 ? 4 : c >= 0xE0 ? 3 : c >= 0xC2 ? 2 : 0; if (!len || c > 0xF4 || i + (size_t)len > n) return false;
            for (int k = 1; k < len; k++) if ((p[i + k] & 0xC0) != 0x80) return false;
            unsigned cp = len == 2 ? ((c & 0x1F) << 6) | (p[i + 1] & 0x3F) : len == 3 ? ((c & 0x0F) << 12) | ((p[i + 1] & 0x3F) << 6) | (p[i + 2] & 0x3F) : ((c & 0x07) << 18) | ((p[i + 1] & 0x3F) << 12) | ((p[i + 2] & 0x3F) << 6) | (p[i + 3] & 0x3F);
            if ((len == 3 && cp < 0x800) || (len == 4 && cp < 0x10000) || cp > 0x10FFFF || (cp >= 0xD800 && cp < 0xE000)) return false;
            i += (size_t)len; }
        return true;
    }
    // UTF-16 is judged only while its first bytes still announce it (a mutation of the BOM / declaration makes the
    // parser decode the rest in another encoding, in which the untouched bytes are illegal)
    bool utf16Announced = n >= 2 && ((p[0] == 0xFF && p[1] == 0xFE) || (p[0] == 0xFE && p[1] == 0xFF)) && s.find(std::string("U\0T\0F\0", 6)) == std::string::npos && s.find(std::string("\0U\0T\0F", 6)) == std::string::npos;
    if ((enc == "UTF-16LE" || enc == "UTF-16BE") && utf16Announced) {
        if (n % 2) return false; bool le = enc == "UTF-16LE";
        for (size_t i = 0; i + 1 < n; i += 2) { unsigned u = le ? p[i] | (p[i + 1] << 8) : (p[i] << 8) | p[i + 1];
            if (u >= 0xD800 && u < 0xDC00) { if (i + 3 >= n) return false; unsigned v = le ? p[i + 2] | (p[i + 3] << 8) : (p[i + 2] << 8) | p[i + 3]; if (v < 0xDC00 || v >= 0xE000) return false; i += 2; }
            else if (u >= 0xDC00 && u < 0xE000) return false; }
        return true;
    }
    return false;    // other encodings: not judged here => treated as "may contain an illegal sequence"
}

// A document that contains an illegal byte sequence is reported at a time that depends on buffering (known finding
// C04-encoding-error-timing). This recognises exactly that shape: the world was byte-mutated, some entity is not
// strictly valid in its encoding (or its encoding cannot be judged here), at least one of the two parses ends in a
// transcoding fatal error, and the structural events before the ends are in prefix relation.
static bool encodingErrorTiming(const std::string& a, const std::string& b, int api, bool mutated, const std::vector<Resource>& res, std::string& msgOut) {
    if (!mutated) return false;
    bool anyIllegal = false; for (auto& r : res) if (!strictlyValid(r.bytes, r.enc)) anyIllegal = true;
    if (!anyIllegal) return false;
    static const char* pats[] = { "invalid byte '", "invalid bytes '", "irregular bytes '", "exceeded byte limit at byte", "invalid multi-byte sequence", "is invalid for '", "leading surrogate followed by invalid trailing surrogate", "is not representable in" };
    auto lastFatal = [](const std::string& s, std::string& msg) { size_t p = s.rfind("FATAL ["); if (p == std::string::npos || (p && s[p - 1] != '\n')) return false; size_t e = s.find('\n', p); size_t m = s.find("] ", p); if (m == std::string::npos || (e != std::string::npos && m > e)) return false; msg = s.substr(m + 2, e == std::string::npos ? std::string::npos : e - m - 2); return true; };
    std::string ma, mb; bool fa = lastFatal(a, ma), fb = lastFatal(b, mb);
    auto isT = [&](const std::string& m) { for (auto p : pats) if (m.find(p) != std::string::npos) return true; return false; };
    if (!((fa && isT(ma)) || (fb && isT(mb)))) return false;
    msgOut = (fa && isT(ma)) ? ma : mb;
    if (api == API_DOM || api == API_DOMLS) return true;     // partial trees are not compared line by line
    auto kinds = [](const std::string& s) { std::vector<std::string> v; size_t i = 0; while (i < s.size()) { size_t e = s.find('\n', i); if (e == std::string::npos) e = s.size(); if (s[i] != ' ') { std::string t = s.substr(i, s.find(' ', i) < e ? s.find(' ', i) - i : e - i); if (t != "chars" && t != "ignws" && t != "FATAL" && t != "ERROR" && t != "WARNING" && t != "endDocument") v.push_back(t); } i = e + 1; } return v; };
    std::vector<std::string> ka = kinds(a), kb = kinds(b); size_t n = std::min(ka.size(), kb.size());
    for (size_t i = 0; i < n; i++) if (ka[i] != kb[i]) return false;
    return true;
}

struct Built { std::vector<Resource> res; ParseCfg cfg; ParseEnv env; };

static void buildEnv(const Json& plan, Built& b) {
    b.res = resourcesFromJson(plan.at("resources")); b.cfg = ParseCfg::fromJson(plan.at("cfg"));
    b.env.res = &b.res; b.env.sourceKind = plan.gets("source", "custom"); b.env.resolver = (int)plan.geti("resolver", 1);
    for (auto& kv : plan.at("sched").o) b.env.sched[kv.first] = Schedule::fromJson(kv.second);
    for (auto& kv : plan.at("faults").o) b.env.sfaults[kv.first] = StreamFaults::fromJson(kv.second);
    if (plan.has("handler_throw")) { b.env.handlerThrowAt = plan.at("handler_throw").geti("at", -1); b.env.handlerFlavour = (int)plan.at("handler_throw").geti("flavour", 0); }
    if (plan.has("progressive")) { b.env.progressiveSteps = plan.at("progressive").geti("steps", -1); b.env.progressiveReset = plan.at("progressive").getb("reset", true); }
    b.env.resolverThrows = plan.getb("resolver_throws", false); b.env.resolverNullFor = plan.gets("resolver_null_for");
}

// Run one parse in a freshly installed simulated world. `oneShot` = reference run (all schedules one read, memory source).
static ParseResult runParse(Built& b, bool oneShot, std::vector<std::string>* fsOpened = nullptr, std::map<int, std::vector<size_t>>* boundaries = nullptr, ParserBox* reuse = nullptr) {
    ParseEnv env = b.env;
    // the reference is the one-shot in-memory parse; a URL source keeps its kind because a *missing* resource is
    // legitimately reported differently by the net accessor ("unable to connect") and the file layer ("unable to open")
    if (oneShot) { env.sched.clear(); if (env.sourceKind != "url") env.sourceKind = "membuf"; }
    SimFileMgr* fm = new SimFileMgr(); SimNetAccessor* na = new SimNetAccessor();
    int id = 0;
    for (auto& r : b.res) {
        SimFile f; f.data = r.bytes; f.sched = env.schedFor(r.name); f.id = id; StreamFaults sf = env.faultsFor(r.name);
        if (sf.truncateAt >= 0 && (size_t)sf.truncateAt < f.data.size()) f.data.resize((size_t)sf.truncateAt);
        f.readThrowAt = sf.throwAtRead;
        if (env.sourceKind == "url") { SimNetResource n; n.data = f.data; n.sched = f.sched; n.id = id; n.failAtRead = sf.throwAtRead; na->table["http://sim.test/" + r.name] = n; }
        fm->files["/sim/" + r.name] = std::move(f);
        id++;
    }
    if (env.sourceKind == "stdin") { fm->hasStdin = true; fm->stdinFile = fm->files["/sim/doc.xml"]; }
    g_boundarySink = boundaries;
    ParseResult pr;
    {
        WorldInstall wi(fm, na);
        if (reuse) { pr = reuse->parse(env); }
        else {
            ParserBox box(b.cfg.api);
            box.configure(b.cfg);
            pr = box.parse(env);
        }
        if (fsOpened) { *fsOpened = fm->openedOk; for (auto& u : na->requests) fsOpened->push_back(u); }
        if (fm->liveHandles != 0) pr.dump += "!! file handles left open: " + std::to_string(fm->liveHandles) + "\n";
    }
    g_boundarySink = nullptr;
    delete fm; delete na;
    return pr;
}

static bool documentedException(const std::string& e) {
    return e.empty() || e == "SAXParseException" || e == "SAXException" || e.rfind("XMLException:", 0) == 0 || e == "DOMException" || e == "DOMLSException" || e == "OutOfMemory" || e == "InjectedSAX" || e == "InjectedForeign";
}

static uint64_t totalBytes(const std::vector<Resource>& res) { uint64_t n = 0; for (auto& r : res) n += r.bytes.size(); return n; }

// ---------------------------------------------------------------------------------------------
class StreamEngine : public Engine {
public:
    explicit StreamEngine(const std::string& p) : prop(p) {}
    std::string property() const override { return prop; }
    std::string level() const override { return prop == "C02" ? "fault_enumeration" : "exploration"; }
    std::string rule() const override {
        if (prop == "C04") return "one run = one WorldGen world (document + external DTD/entities, any encoding, 30% byte-mutated) x random parser configuration x per-entity chunk schedule x source kind, compared with the one-shot in-memory parse of the same bytes; distinct = distinct plan hash; non-trivial = at least one short read actually happened or the source kind is not the custom stream";
        if (prop == "C02") return "one run = one WorldGen document for which EVERY truncation offset k of one entity is parsed (writer crash at byte k), plus the untruncated document under several read schedules; expected verdict comes from the generator's span map; distinct = distinct plan hash; non-trivial = at least one truncation actually reached the parser";
        return "one run = one WorldGen world (60% byte/token mutated) x random configuration of all four APIs/scanners x environment faults (truncate, corrupt, short reads, stream throw, handler throw x3 flavours, resolver null/throw, abandoned progressive parse); monitors: ASan+UBSan, documented exception types only, step budget; distinct = plan hash; non-trivial = at least one fault fired";
    }
    Json describe() const override {
        Json d = Json::obj();
        Json real = Json::arr(); for (auto s : { "xerces-c scanners (IG/WF/DG/SG)", "XMLReader/ReaderMgr", "transcoders incl. ICU", "SAXParser", "SAX2XMLReaderImpl", "XercesDOMParser", "DOMLSParserImpl", "DTD scanner/validator", "BinFileInputStream/BinMemInputStream/StdIn/URL input sources", "in-memory message loader" }) real.push(s);
        Json stub = Json::arr(); for (auto s : { "XMLFileMgr (SimFileMgr, in-memory tree)", "XMLNetAccessor (SimNetAccessor)", "application InputSource/BinInputStream (SimStream)", "entity resolvers", "SAX/DOM handlers (recorders)" }) stub.push(s);
        d.set("components_real", real); d.set("components_stubbed", stub);
        d.set("simulated_time", "logical steps: one tick per stream read, file-manager call, resolver call and handler callback; xerces-c reads no clock on these paths");
        Json as = Json::arr();
        as.push("the harness is linked against a static clang -O1 ASan+UBSan build of /repo's working tree; PosixFileMgr, CurlNetAccessor are replaced and therefore not exercised");
        if (prop == "C01") as.push("slice only: inputs come from the structured generator plus byte/token mutation, not from coverage-guided search over all byte strings");
        if (prop == "C02") as.push("slice only: reject side covers truncation (torn documents/entities); grammar-level single-constraint violations are not decided here");
        d.set("assumptions", as);
        return d;
    }
    void globalInit() override { if (!inited) { XMLPlatformUtils::Initialize(XMLUni::fgXercescDefaultLocale, 0, 0, new CachingGlobalMM()); inited = true; } }
    uint64_t defaultRuns(const std::string& tier) const override {
        if (prop == "C04") return tier == "quick" ? 20000 : 400000;
        if (prop == "C02") return tier == "quick" ? 12000 : 200000;
        return tier == "quick" ? 20000 : 400000;
    }

    Json generate(uint64_t seed, uint64_t index, const std::string& tier) override {
        if (prop == "C04") return genC04(seed, index, tier);
        if (prop == "C02") return genC02(seed, index, tier);
        return genC01(seed, index, tier);
    }
    Outcome execute(const Json& plan) override {
        std::string dumped = plan.dump();
        Outcome o; o.fingerprint = fnv1a(dumped);
        if (prop == "C04") execC04(plan, o); else if (prop == "C02") execC02(plan, o); else execC01(plan, o);
        return o;
    }
    Json sampleView(const Json& plan) override {
        Json p = plan;
        for (auto& r : p.ref("resources").a) { std::string b = r.gets("bytes"); if (b.size() > 400) r.set("bytes", b.substr(0, 400) + "...(" + std::to_string(b.size()) + " chars)"); }
        for (auto& kv : p.ref("sched").o) { Json& sz = kv.second.ref("sizes"); if (sz.a.size() > 24) { size_t n = sz.a.size(); sz.a.resize(24); sz.push("...(" + std::to_string(n) + " entries)"); } }
        if (p.has("safe_cuts") && p.at("safe_cuts").a.size() > 24) { size_t n = p.at("safe_cuts").a.size(); p.ref("safe_cuts").a.resize(24); p.ref("safe_cuts").push("...(" + std::to_string(n) + ")"); }
        return p;
    }

    std::vector<Json> shrinkCandidates(const Json& plan) override {
        std::vector<Json> c;
        // 1. drop faults / handler throw / progressive
        for (const char* k : { "handler_throw", "progressive", "resolver_throws", "resolver_null_for", "target" }) if (plan.has(k)) { Json p = plan; p.erase(k); c.push_back(p); }
        for (auto& kv : plan.at("faults").o) { Json p = plan; p.ref("faults").erase(kv.first); c.push_back(p); }
        // 2. simplify schedules
        for (auto& kv : plan.at("sched").o) {
            { Json p = plan; p.ref("sched").erase(kv.first); c.push_back(p); }
            const Json& sz = kv.second.at("sizes");
            if (sz.a.size() > 1) { Json p = plan; Json& s = p.ref("sched").ref(kv.first).ref("sizes"); s.a.resize(sz.a.size() / 2); c.push_back(p); }
            if (sz.a.size() >= 1) { Json p = plan; Json& s = p.ref("sched").ref(kv.first).ref("sizes"); s.a.erase(s.a.begin()); c.push_back(p); }
            if (kv.second.geti("rest") < (1 << 20)) { Json p = plan; p.ref("sched").ref(kv.first).set("rest", 1 << 20); c.push_back(p); }
        }
        if (plan.gets("source") != "custom") { Json p = plan; p.set("source", "custom"); c.push_back(p); }
        // 3. single k for C02
        if (plan.has("ks") && plan.at("ks").a.size() > 1) { for (size_t half = 0; half < 2; half++) { Json p = plan; Json& ks = p.ref("ks"); size_t n = ks.a.size(); if (half == 0) ks.a.resize(n / 2); else ks.a.erase(ks.a.begin(), ks.a.begin() + (long)(n / 2)); c.push_back(p); } }
        if (plan.has("accept_scheds") && plan.at("accept_scheds").a.size() > 0) { Json p = plan; p.ref("accept_scheds").a.clear(); c.push_back(p); }
        // 4. configuration towards defaults
        { ParseCfg cur = ParseCfg::fromJson(plan.at("cfg")); ParseCfg d; d.api = cur.api; d.scanner = cur.scanner; d.val = cur.val;
            Json dj = d.toJson(); if (dj.dump() != plan.at("cfg").dump()) { Json p = plan; p.set("cfg", dj); c.push_back(p); }
            for (auto& kv : plan.at("cfg").o) if (kv.first != "api" && kv.first != "scanner" && kv.first != "val") { Json p = plan; p.ref("cfg").erase(kv.first); c.push_back(p); }
            if (cur.val != 0) { Json p = plan; p.ref("cfg").set("val", 0); c.push_back(p); }
            if (cur.scanner != 0) { Json p = plan; p.ref("cfg").set("scanner", 0); c.push_back(p); } }
        // 5. drop non-document resources
        // (not for C02: a missing resource is itself a fatal error and would change what the violation is about)
        if (plan.gets("mode") != "C02") for (size_t i = 1; i < plan.at("resources").a.size(); i++) { Json p = plan; jsonRemoveAt(p.ref("resources"), i); c.push_back(p); }
        // 6. shrink document bytes (only when no offsets depend on them)
        if (!plan.has("ks") && !plan.has("safe_cuts")) {
            for (size_t ri = 0; ri < plan.at("resources").a.size(); ri++) {
                std::string b = bytesDec(plan.at("resources").a[ri].gets("bytes"));
                if (b.size() < 2) continue;
                for (size_t chunk = b.size() / 2; chunk >= 1; chunk /= 2) {
                    for (size_t pos = 0; pos + chunk <= b.size() && c.size() < 600; pos += chunk) { Json p = plan; std::string nb = b.substr(0, pos) + b.substr(pos + chunk); p.ref("resources").a[ri].set("bytes", bytesEnc(nb)); c.push_back(p); }
                    if (chunk == 1) break;
                }
            }
        }
        return c;
    }

private:
    std::string prop; bool inited = false;

    // ------------------------------------------------------------------ C04
    Json genC04(uint64_t seed, uint64_t index, const std::string& tier) {
        Rng wr = runRng(seed, index, "workload"), cr = runRng(seed, index, "chunks"), fr = runRng(seed, index, "faults");
        GenOpts go; unsigned big = (unsigned)wr.below(100);
        // the reader fills its 48K raw buffer completely before it looks at anything, so read boundaries only matter beyond that point:
        // most documents are padded so that the generated body starts around / after the first 49152 bytes
        if (big < 35) {          // one construct of the body slid across a 16384-unit character-buffer refill point (delta swept over a window)
            go.alignMode = 1; go.alignMultiple = 3 + (int)wr.below(3); go.alignDelta = (int)wr.below(70) - 8; go.padAfterBytes = 20000;
            static const char* ks[] = { "", "", "", "mbchar", "surrogate", "crlf", "charref", "entref", "etag", "cdata", "comment", "stag", "pi" }; go.alignKind = ks[wr.below(13)];
        } else if (big < 50) {   // ... across a 49152-byte raw-buffer refill point
            go.alignMode = 2; go.alignMultiple = 1 + (int)wr.below(2); go.alignDelta = (int)wr.below(110) - 6; go.padAfterBytes = wr.coin() ? 20000 : 0;
            static const char* ks[] = { "", "", "mbchar", "surrogate", "crlf", "charref", "etag", "cdata", "stag" }; go.alignKind = ks[wr.below(9)];
        }
        else if (big < 62) go.padBytes = 49152 - (int)wr.below(400); else if (big < 70) go.padBytes = 49152 + (int)wr.below(3000); else if (big < 76) go.padBytes = 49152 * 2 - (int)wr.below(400); else if (big < 82) go.padTo = 16384 - (int)wr.below(400); else if (big < 86) go.padBytes = 49152 - 16384 - (int)wr.below(400);
        if (tier == "thorough" && wr.chance(1, 6)) go.bigText = true;
        if (big >= 86 && big < 92) go.bigText = true;
        World w = makeWorld(wr, go);
        size_t leadBytes = w.res[0].padAt + w.res[0].padUnit.size() * w.res[0].padCount + w.res[0].padExtra.size();
        Json plan = Json::obj(); plan.set("mode", "C04");
        if (go.alignMode) { Json al = Json::obj(); al.set("mode", go.alignMode == 1 ? "char16k" : "raw48k"); al.set("multiple", go.alignMultiple); al.set("delta", go.alignDelta); al.set("kind", go.alignKind); plan.set("aligned", al); }
        ParseCfg cfg = ParseCfg::random(wr); cfg.secMgr = false; if (cfg.scanner == 3) cfg.schema = true;
        bool mutated = fr.chance(3, 10);
        if (mutated) { int n = 1 + fr.small(2); for (int i = 0; i < n; i++) { Resource& r = w.res[fr.below(w.res.size())]; mutateBytes(fr, r.core); if (r.padAt > r.core.size()) r.padAt = r.core.size(); r.expand(); r.spans.clear(); } plan.set("mutated", true); }
        plan.set("cfg", cfg.toJson()); plan.set("resources", worldToJson(w));
        static const char* kinds[] = { "custom", "custom", "custom", "custom", "file", "file", "stdin", "url", "membuf" };
        std::string kind = kinds[cr.below(9)]; plan.set("source", kind);
        plan.set("resolver", (int)cr.below(3));
        Json sched = Json::obj();
        // targeted: boundaries inside one chosen construct
        bool targeted = !mutated && cr.chance(1, 2);
        if (targeted) {
            std::vector<std::pair<size_t, size_t>> cand; for (size_t ri = 0; ri < w.res.size(); ri++) for (size_t si = 0; si < w.res[ri].spans.size(); si++) if (w.res[ri].spans[si].e > w.res[ri].spans[si].b) cand.emplace_back(ri, si);
            if (!cand.empty()) {
                // prefer the rarer kinds: pick a kind first, then a span of that kind
                std::vector<std::string> kindsSeen; for (auto& c : cand) { auto& k = w.res[c.first].spans[c.second].kind; if (std::find(kindsSeen.begin(), kindsSeen.end(), k) == kindsSeen.end()) kindsSeen.push_back(k); }
                std::string k = kindsSeen[cr.below(kindsSeen.size())]; std::vector<std::pair<size_t, size_t>> ofKind; for (auto& c : cand) if (w.res[c.first].spans[c.second].kind == k) ofKind.push_back(c);
                auto pick = ofKind[cr.below(ofKind.size())]; const Span& sp = w.res[pick.first].spans[pick.second];
                sched.set(w.res[pick.first].name, targetedSchedule(cr, sp.b, sp.e).toJson());
                Json t = Json::obj(); t.set("res", w.res[pick.first].name); t.set("kind", sp.kind); t.set("b", (long long)sp.b); t.set("e", (long long)sp.e); plan.set("target", t);
            }
        }
        for (auto& r : w.res) if (!sched.has(r.name)) sched.set(r.name, genSchedule(cr, r.bytes.size(), r.role == "doc" && leadBytes > 600 ? leadBytes - 600 : 0).toJson());
        plan.set("sched", sched); plan.set("faults", Json::obj());
        return plan;
    }
    void execC04(const Json& plan, Outcome& o) {
        Built b; buildEnv(plan, b);
        uint64_t budget = 400000 + 400 * totalBytes(b.res);
        g_run.reset(budget);
        ParseResult ref, var; std::map<int, std::vector<size_t>> bnd;
        try { ref = runParse(b, true); var = runParse(b, false, nullptr, &bnd); }
        catch (const SimAbort&) { o.violated = true; o.cls = "budget"; o.detail = "step budget exceeded"; return; }
        o.nontrivial = g_run.faults.count("short_read") || b.env.sourceKind != "custom";
        // reach probes
        if (plan.has("target")) {
            const Json& t = plan.at("target"); size_t tb = (size_t)t.geti("b"), te = (size_t)t.geti("e"); int rid = 0; for (size_t i = 0; i < b.res.size(); i++) if (b.res[i].name == t.gets("res")) rid = (int)i;
            bool hit = false; for (size_t x : bnd[rid]) if (x > tb && x < te) hit = true; else if (x == tb || x == te) g_run.probe("boundary_at_construct_edge");
            if (hit) g_run.probes[(tb >= 49152 ? "split_after_first_48K:" : "split:") + t.gets("kind")]++;
        }
        for (auto& r : b.res) { if (r.bytes.size() > 49152) g_run.probe("entity_over_48K_bytes"); else if (r.bytes.size() > 16384) g_run.probe("entity_over_16K_bytes"); }
        if (var.fatals) g_run.probe("variant_has_fatal"); if (ref.errors) g_run.probe("has_validity_error");
        g_run.probes["source:" + b.env.sourceKind]++;
        if (plan.has("aligned")) g_run.probes["aligned_to_" + plan.at("aligned").gets("mode") + ":" + (plan.at("aligned").gets("kind").empty() ? std::string("any") : plan.at("aligned").gets("kind"))]++;
        // "continue after fatal error": the documentation calls the parser's behaviour behind the first fatal error undetermined (doc/program-sax2.xml,
        // continue-after-fatal-error) - what is compared then is everything up to and including the first fatal error, not what the parser makes of the rest
        if (!b.cfg.exitOnFirstFatal) { auto cut = [](std::string& d) { size_t p = d.compare(0, 6, "FATAL ") == 0 ? 0 : d.find("\nFATAL "); if (p == std::string::npos) return false; size_t e = d.find('\n', p + 1); if (e != std::string::npos) d.resize(e + 1); return true; };
            bool c1 = cut(ref.dump), c2 = cut(var.dump); if (c1 || c2) g_run.probe("compared_up_to_first_fatal"); }
        if (getenv("VERIF_DEBUG_DUMPS")) fprintf(stderr, "==== reference\n%s\n==== variant\n%s\n", ref.dump.c_str(), var.dump.c_str());
        if (ref.dump != var.dump || ref.exception != var.exception) {
            o.violated = true; std::string d; std::string tok = ref.exception != var.exception && ref.dump == var.dump ? "exception" : firstDiff(ref.dump, var.dump, d);
            o.cls = "dump-mismatch:" + tok; o.detail = d + " exception ref=<" + ref.exception + "> var=<" + var.exception + "> source=" + b.env.sourceKind + " enc=" + b.res[0].enc;
            // Narrow, separately named class: both parses end in the same invalid-byte-sequence (transcoding) fatal error and
            // differ only in *when* it struck (events delivered before it, position attributed to it).
            std::string msg;
            if (ref.exception == var.exception && encodingErrorTiming(ref.dump, var.dump, b.cfg.api, plan.getb("mutated"), b.res, msg)) { o.cls = "encoding-error-timing"; o.detail = "transcoding fatal error: <" + msg + ">; " + o.detail; }
            // Another narrow class: everything is equal except the byte offsets of getSrcOffset(), in a world that has an entity in a
            // multi-byte encoding served by the ICU transcoder (the generator's only one is Shift_JIS).
            else if (ref.exception == var.exception) { auto strip = [](const std::string& s) { std::string o2; for (size_t i = 0; i < s.size();) { if (s.compare(i, 5, " ofs=") == 0) { i += 5; while (i < s.size() && isdigit((unsigned char)s[i])) i++; } else o2 += s[i++]; } return o2; };
                bool icuMultibyte = false; for (auto& r : b.res) if (r.enc == "Shift_JIS") icuMultibyte = true;
                if (icuMultibyte && strip(ref.dump) == strip(var.dump)) { o.cls = "srcoffset-icu-multibyte"; o.detail = "only getSrcOffset() differs; " + o.detail; } }
        } else if (!documentedException(var.exception)) { o.violated = true; o.cls = "foreign-exception"; o.detail = var.exception; }
    }

    // ------------------------------------------------------------------ C02
    Json genC02(uint64_t seed, uint64_t index, const std::string& tier) {
        Rng wr = runRng(seed, index, "workload"), cr = runRng(seed, index, "chunks");
        GenOpts go; go.maxDepth = 3; go.maxChildren = 3;
        if (tier == "thorough" && wr.chance(1, 40)) go.padTo = 16384 - (int)wr.below(300);
        World w = makeWorld(wr, go);
        ParseCfg cfg = ParseCfg::random(wr); cfg.secMgr = false; cfg.validationErrorAsFatal = false; cfg.standardUri = false /* plain-path system ids are "malformed URLs" by that feature's definition */; cfg.schema = false; cfg.fullSchema = false; cfg.lowWaterMark = -1; cfg.positions = false; cfg.calcSrcOfs = false;
        if (w.hasDoctype && (cfg.scanner == 1 || cfg.scanner == 3)) cfg.scanner = wr.coin() ? 0 : 2;
        if (cfg.scanner == 3) cfg.schema = true;
        Json plan = Json::obj(); plan.set("mode", "C02"); plan.set("cfg", cfg.toJson()); plan.set("resources", worldToJson(w));
        plan.set("source", "custom"); plan.set("resolver", 1 + (int)wr.below(2)); plan.set("sched", Json::obj()); plan.set("faults", Json::obj());
        // choose the entity that is torn: document (most often) or an external entity that will be read
        size_t target = 0; if (w.res.size() > 1 && wr.chance(2, 5)) target = 1 + wr.below(w.res.size() - 1);
        const Resource& tr = w.res[target];
        plan.set("torn", tr.name); plan.set("torn_role", tr.role);
        Json cuts = Json::arr();
        if (target == 0) { for (size_t k : tr.safeCuts) if (k >= tr.rootEnd) cuts.push((long long)k); }
        else for (size_t k : tr.safeCuts) cuts.push((long long)k);
        plan.set("safe_cuts", cuts);
        Json ks = Json::arr(); size_t n = tr.bytes.size();
        // An EBCDIC external entity is only recognisable from its first four bytes ('<?xm' in EBCDIC); a shorter prefix is
        // legitimately auto-sensed as UTF-8, in which 0x4C 0x6F are the well-formed text "Lo". Nothing can be expected of
        // those cuts, so they are not enumerated (the document entity is unaffected: text alone is never a document).
        size_t kFrom = (target != 0 && tr.enc.rfind("IBM", 0) == 0) ? 4 : 0;
        if (n <= 1200) for (size_t k = kFrom; k < n; k++) ks.push((long long)k);
        else { std::set<size_t> s; for (auto& sp : tr.spans) for (size_t d = 0; d < 3; d++) { if (sp.b + d < n) s.insert(sp.b + d); if (sp.e >= d && sp.e - d < n) s.insert(sp.e - d); } for (int i = 0; i < 300; i++) s.insert(wr.below(n)); for (size_t d = 0; d < 40 && d < n; d++) s.insert(n - 1 - d); for (auto k : s) ks.push((long long)k); }
        plan.set("ks", ks);
        Json as = Json::arr(); int na = 3; for (int i = 0; i < na; i++) { Json sj = Json::obj(); for (auto& r : w.res) sj.set(r.name, genSchedule(cr, r.bytes.size()).toJson()); as.push(sj); }
        plan.set("accept_scheds", as);
        return plan;
    }
    static bool usesResource(const std::vector<std::string>& opened, const std::string& name) { return std::find(opened.begin(), opened.end(), name) != opened.end(); }
    void execC02(const Json& plan, Outcome& o) {
        Built b; buildEnv(plan, b);
        uint64_t bytes = totalBytes(b.res); uint64_t nk = plan.at("ks").a.size() + plan.at("accept_scheds").a.size() + 1;
        g_run.reset((400000 + 400 * bytes) * nk);
        std::string torn = plan.gets("torn"); bool tornIsDoc = plan.gets("torn_role") == "doc";
        std::set<int64_t> safe; for (auto& x : plan.at("safe_cuts").a) safe.insert(x.i64());
        size_t tornLen = 0; for (auto& r : b.res) if (r.name == torn) tornLen = r.bytes.size();
        try {
            // accept side: the complete document under the one-shot schedule and each stored schedule set
            ParseResult full; bool fullIsClean = false;
            for (size_t i = 0; i <= plan.at("accept_scheds").a.size(); i++) {
                b.env.sched.clear(); b.env.sfaults.clear();
                if (i > 0) for (auto& kv : plan.at("accept_scheds").a[i - 1].o) b.env.sched[kv.first] = Schedule::fromJson(kv.second);
                ParseResult pr = runParse(b, false);
                if (i == 0) { full = pr; fullIsClean = pr.fatals == 0 && pr.exception.empty(); }
                if (pr.fatals > 0 || !pr.exception.empty()) {
                    o.violated = true; o.cls = std::string("accept:fatal-on-wellformed") + (i ? ":chunked" : ""); std::string first = pr.dump.substr(pr.dump.find("FATAL") == std::string::npos ? 0 : pr.dump.find("FATAL"), 300);
                    o.detail = "well-formed generated document got fatal/exception '" + pr.exception + "' : " + first + " enc=" + b.res[0].enc + " api=" + kApiNames[b.cfg.api] + " scanner=" + kScannerNames[b.cfg.scanner]; return;
                }
                g_run.probe("accept_parse");
            }
            (void)fullIsClean;
            // was the torn entity read at all in the complete parse?
            bool tornRead = tornIsDoc || usesResource(full.opened, torn);
            if (!tornRead) { g_run.probe("torn_entity_not_loaded_by_this_config"); return; }
            b.env.sched.clear();
            // reject side: every k (one parser object serves all k of this run; history independence is C15's subject)
            ParserBox box(b.cfg.api); box.configure(b.cfg);
            for (auto& kj : plan.at("ks").a) {
                int64_t k = kj.i64(); if (k < 0 || (size_t)k >= tornLen) continue;
                b.env.sfaults.clear(); StreamFaults sf; sf.truncateAt = k; b.env.sfaults[torn] = sf;
                ParseResult pr = runParse(b, false, nullptr, nullptr, &box);
                bool expectWF = safe.count(k) > 0;
                bool rejected = pr.fatals > 0 || !pr.exception.empty();
                o.nontrivial = true;
                if (!expectWF) g_run.probe("torn_prefix_not_wf"); else g_run.probe("torn_prefix_still_wf");
                if (!expectWF && !rejected) {
                    o.violated = true; o.cls = std::string("reject:torn-") + plan.gets("torn_role") + "-accepted";
                    // known finding, told apart exactly: the cut lies inside a character of an encoding that a stateful ICU converter decodes (it swallows the lead byte and nobody flushes it at the end of the entity)
                    for (auto& r : b.res) if (r.name == torn && r.enc == "Shift_JIS") { UErrorCode ec = U_ZERO_ERROR; UConverter* cv = ucnv_open("Shift_JIS", &ec); if (cv) { ucnv_setToUCallBack(cv, UCNV_TO_U_CALLBACK_STOP, nullptr, nullptr, nullptr, &ec); std::vector<UChar> tmp((size_t)k + 8); ucnv_toUChars(cv, tmp.data(), (int32_t)tmp.size(), r.bytes.data(), (int32_t)k, &ec); if (ec == U_TRUNCATED_CHAR_FOUND) o.cls = "reject:torn-inside-icu-multibyte-char"; ucnv_close(cv); } }
                    std::string around; for (auto& r : b.res) if (r.name == torn) around = bytesEnc(r.bytes.substr(k > 12 ? (size_t)k - 12 : 0, k > 12 ? 12 : (size_t)k));
                    o.detail = "entity " + torn + " (" + std::to_string(tornLen) + " bytes, enc " + b.res[0].enc + ") truncated at byte " + std::to_string(k) + " was accepted with no fatal error; bytes before cut: " + around + " api=" + kApiNames[b.cfg.api] + " scanner=" + kScannerNames[b.cfg.scanner];
                    Json one = Json::arr(); one.push((long long)k); const_cast<Json&>(plan).isNull(); return;
                }
                if (expectWF && rejected) {
                    o.violated = true; o.cls = std::string("accept:wf-prefix-of-") + plan.gets("torn_role") + "-rejected";
                    o.detail = "entity " + torn + " cut at " + std::to_string(k) + " is still well-formed by the span map but got: " + pr.dump.substr(pr.dump.find("FATAL") == std::string::npos ? 0 : pr.dump.find("FATAL"), 300); return;
                }
            }
        } catch (const SimAbort&) { o.violated = true; o.cls = "budget"; o.detail = "step budget exceeded"; }
    }

    // ------------------------------------------------------------------ C01
    Json genC01(uint64_t seed, uint64_t index, const std::string& tier) {
        Rng wr = runRng(seed, index, "workload"), cr = runRng(seed, index, "chunks"), fr = runRng(seed, index, "faults");
        GenOpts go; unsigned big = (unsigned)wr.below(100); if (big < 3) go.padTo = 16384 - (int)wr.below(600); else if (big < 15) go.padBytes = 49152 - (int)wr.below(600); if (big >= 15 && big < 20) go.bigText = true;
        (void)tier;
        bool schemaWorld = wr.chance(1, 6);      // an instance of generated schemas: schema loader, datatype validators and the regular-expression engine behind the same streams
        World w = schemaWorld ? makeSchemaWorld(wr) : makeWorld(wr, go);
        ParseCfg cfg = ParseCfg::random(wr); if (cfg.scanner == 3) cfg.schema = true;
        cfg.disableDefaultEntityResolution = wr.chance(1, 10);
        if (schemaWorld) { cfg.schema = true; cfg.ns = true; if (cfg.scanner == 1 || cfg.scanner == 2) cfg.scanner = wr.coin() ? 0 : 3; if (cfg.val == 0 && !wr.chance(1, 4)) cfg.val = 1 + (int)wr.below(2); }      // (a quarter of the non-validating configurations stay: schema processing without validation)
        Json plan = Json::obj(); plan.set("mode", "C01"); if (schemaWorld) plan.set("schema_world", true);
        bool faultFree = fr.chance(1, 4);
        if (!faultFree && fr.chance(3, 5)) { int n = 1 + fr.small(3); for (int i = 0; i < n; i++) { Resource& r = w.res[fr.below(w.res.size())]; mutateBytes(fr, r.core); if (r.padAt > r.core.size()) r.padAt = r.core.size(); r.expand(); } plan.set("mutated", true); }
        plan.set("cfg", cfg.toJson()); plan.set("resources", worldToJson(w));
        static const char* kinds[] = { "custom", "custom", "custom", "file", "stdin", "url", "membuf" };
        plan.set("source", kinds[cr.below(7)]); plan.set("resolver", (int)cr.below(3));
        Json sched = Json::obj(); for (auto& r : w.res) sched.set(r.name, genSchedule(cr, r.bytes.size()).toJson()); plan.set("sched", sched);
        Json faults = Json::obj();
        if (!faultFree) {
            if (fr.chance(1, 3)) { const Resource& r = w.res[fr.below(w.res.size())]; StreamFaults sf; sf.truncateAt = (int64_t)fr.below(r.bytes.size() + 1); faults.set(r.name, sf.toJson()); }
            if (fr.chance(1, 6)) { const Resource& r = w.res[fr.below(w.res.size())]; StreamFaults sf = StreamFaults::fromJson(faults.at(r.name)); sf.throwAtRead = 1 + (int64_t)fr.below(6); faults.set(r.name, sf.toJson()); }
            if (fr.chance(1, 3)) { Json h = Json::obj(); h.set("at", (long long)(1 + fr.below(40))); h.set("flavour", (int)fr.below(3)); plan.set("handler_throw", h); }
            if (fr.chance(1, 8)) { Json p = Json::obj(); p.set("steps", (long long)fr.below(30)); p.set("reset", fr.coin()); plan.set("progressive", p); }
            if (fr.chance(1, 12)) plan.set("resolver_throws", true);
            if (w.res.size() > 1 && fr.chance(1, 8)) plan.set("resolver_null_for", w.res[1 + fr.below(w.res.size() - 1)].name);
        }
        plan.set("faults", faults);
        return plan;
    }
    void execC01(const Json& plan, Outcome& o) {
        Built b; buildEnv(plan, b);
        uint64_t bytes = totalBytes(b.res);
        uint64_t budget = 200000 + 300 * bytes * (b.cfg.secMgr ? (uint64_t)std::min(b.cfg.entityLimit, 64) + 1 : 64);
        g_run.reset(budget);
        ParseResult pr;
        try { pr = runParse(b, false); }
        catch (const SimAbort&) { o.violated = true; o.cls = "budget"; o.detail = "step budget " + std::to_string(budget) + " exceeded for " + std::to_string(bytes) + " input bytes"; return; }
        o.nontrivial = !g_run.faults.empty() || plan.getb("mutated");
        if (plan.getb("mutated")) g_run.fault("corrupt_bytes");
        if (plan.getb("schema_world")) g_run.probe("schema_world");
        g_run.probes[std::string("api:") + kApiNames[b.cfg.api]]++; g_run.probes[std::string("scanner:") + kScannerNames[b.cfg.scanner]]++;
        g_run.probes["ending:" + (pr.exception.empty() ? std::string(pr.abandoned ? "abandoned" : pr.fatals ? "fatal" : pr.errors ? "errors" : "clean") : pr.exception.substr(0, pr.exception.find(':')))]++;
        if (!documentedException(pr.exception)) { o.violated = true; o.cls = "foreign-exception:" + pr.exception; o.detail = "an exception of undocumented type escaped parse(): " + pr.exception; return; }
        if (pr.exception == "InjectedForeign" && !plan.has("handler_throw")) { o.violated = true; o.cls = "foreign-exception:phantom"; return; }
        if (pr.dump.find("!! file handles left open") != std::string::npos) { o.violated = true; o.cls = "handle-leak"; o.detail = "file handles left open after parse"; }
    }
};

int main(int argc, char** argv) {
    return driverMain(argc, argv, [](const std::string& p) -> Engine* { if (p == "C01" || p == "C02" || p == "C04") return new StreamEngine(p); return nullptr; });
}
