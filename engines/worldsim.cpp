// worldsim: the parser in a simulated file system + network + application resolver.
//   C19  no external resource is touched unless referenced and permitted; resolver protocol; base-URI resolution;
//        entity-expansion bound and recursion
//   C20  XInclude: merged tree, fallback, loops (reference expander over the generator's own tree model)
#include "../sim/parserun.hpp"
#include "../sim/schedgen.hpp"

using namespace sim;

// ---------------------------------------------------------------------------------------------
// location helpers (RFC 2396 resolution restricted to the forms the generator uses)
static std::string stripFileScheme(const std::string& s) {
    if (s.compare(0, 8, "file:///") == 0) return s.substr(7);
    if (s.compare(0, 6, "file:/") == 0 && s.compare(0, 7, "file://") != 0) return s.substr(5);
    return s;
}
static bool isAbs(const std::string& s) { return !s.empty() && (s[0] == '/' || s.find("://") != std::string::npos || s.compare(0, 5, "file:") == 0); }
static std::string normLoc(std::string s) {
    s = stripFileScheme(s);
    std::string scheme; size_t p = s.find("://"); if (p != std::string::npos) { size_t slash = s.find('/', p + 3); scheme = s.substr(0, slash == std::string::npos ? s.size() : slash); s = slash == std::string::npos ? "/" : s.substr(slash); }
    return scheme + SimFileMgr::normalize(s);
}
static std::string resolveLoc(const std::string& base, const std::string& ref) {
    if (isAbs(ref)) return normLoc(ref);
    std::string b = normLoc(base); size_t slash = b.rfind('/'); std::string dir = slash == std::string::npos ? std::string() : b.substr(0, slash + 1);
    return normLoc(dir + ref);
}

// ---------------------------------------------------------------------------------------------
struct Ref { std::string kind, literal, container, expected, decoy; bool referenced = true; };

struct C19World {
    std::map<std::string, std::string> files;     // absolute path -> content
    std::map<std::string, std::string> net;       // url -> content
    std::string docLoc; std::string doc; std::vector<Ref> refs; bool schemaFlavour = false;
};

static std::string litFor(Rng& r, const std::string& expected, const std::string& containerLoc, bool httpWorld) {
    // how the reference is spelled: relative to its container, absolute, or file:/http: URL
    std::string cdir = containerLoc.substr(0, containerLoc.rfind('/') + 1);
    unsigned k = (unsigned)r.below(10);
    std::string rel = expected.compare(0, cdir.size(), cdir) == 0 ? expected.substr(cdir.size()) : expected;
    if (k < 6 && rel != expected) return (r.chance(1, 6) ? "./" : "") + rel;
    if (httpWorld) return expected;
    if (k < 8) return expected;                 // absolute path
    return "file://" + expected;                // file URL
}

static C19World genC19World(Rng& r) {
    C19World w; bool http = r.chance(1, 4); std::string D = http ? "http://sim.test/a" : "/sim/a";
    w.docLoc = D + "/doc.xml"; w.schemaFlavour = r.chance(2, 5);
    auto put = [&](const std::string& loc, const std::string& content) { if (http) w.net[loc] = content; else w.files[loc] = content; };
    if (!w.schemaFlavour) {
        bool hasExt = r.chance(3, 4), hasGe = r.chance(3, 4), hasPe = r.chance(1, 2), hasXge = hasExt && r.chance(1, 2), hasNested = hasGe && r.chance(1, 2), hasUnref = r.chance(2, 3);
        std::string extLoc = D + "/dtd/ext.dtd", geLoc = D + "/ents/ge.ent", peLoc = D + "/ents/pe.ent", xgeLoc = D + "/dtd/sub/xge.ent", nestedLoc = D + "/n/nested.ent", unrefLoc = D + "/ents/unref.ent";
        std::string subset;
        subset += "<!ELEMENT r ANY><!ELEMENT i ANY><!ELEMENT frompe ANY>";
        if (hasGe) { Ref f; f.kind = "ge"; f.container = w.docLoc; f.expected = geLoc; f.literal = litFor(r, geLoc, w.docLoc, http); f.referenced = r.chance(4, 5); w.refs.push_back(f); subset += "<!ENTITY ge SYSTEM '" + f.literal + "'>"; }
        if (hasNested) { Ref f; f.kind = "nested"; f.container = w.docLoc; f.expected = nestedLoc; f.literal = "n/nested.ent"; f.decoy = D + "/ents/n/nested.ent"; f.referenced = w.refs.back().referenced; w.refs.push_back(f); subset += "<!ENTITY nested SYSTEM '" + f.literal + "'>"; put(f.decoy, "<i>DECOY nested resolved against the referencing entity</i>"); }
        if (hasUnref) { Ref f; f.kind = "unref"; f.container = w.docLoc; f.expected = unrefLoc; f.literal = litFor(r, unrefLoc, w.docLoc, http); f.referenced = false; w.refs.push_back(f); subset += "<!ENTITY unref SYSTEM '" + f.literal + "'>"; put(unrefLoc, "<i>never referenced</i>"); }
        if (hasPe) { Ref f; f.kind = "pe"; f.container = w.docLoc; f.expected = peLoc; f.literal = litFor(r, peLoc, w.docLoc, http); w.refs.push_back(f); subset += "<!ENTITY % pe SYSTEM '" + f.literal + "'>%pe;"; put(peLoc, "<!ATTLIST frompe a CDATA 'v'>"); }
        std::string doctype = "<!DOCTYPE r";
        if (hasExt) { Ref f; f.kind = "extsubset"; f.container = w.docLoc; f.expected = extLoc; f.literal = litFor(r, extLoc, w.docLoc, http); w.refs.push_back(f); doctype += (r.chance(1, 4) ? " PUBLIC '-//SIM//DTD//EN' '" : " SYSTEM '") + f.literal + "'";
            std::string ext = "<!ELEMENT fromext ANY>";
            if (hasXge) { Ref g; g.kind = "xge"; g.container = extLoc; g.expected = xgeLoc; g.literal = "sub/xge.ent"; g.decoy = D + "/sub/xge.ent"; g.referenced = r.chance(4, 5); w.refs.push_back(g); ext += "<!ENTITY xge SYSTEM 'sub/xge.ent'>"; put(xgeLoc, "<i>xge content</i>"); put(g.decoy, "<i>DECOY xge resolved against the document</i>"); }
            put(extLoc, ext); }
        doctype += " [" + subset + "]>";
        std::string body = "<r>text";
        for (auto& f : w.refs) { if (f.kind == "ge" && f.referenced) body += "&ge;"; if (f.kind == "xge" && f.referenced) body += "<i>&xge;</i>"; }
        body += "</r>";
        if (hasGe) put(geLoc, std::string("<i>ge content") + (hasNested ? "&nested;" : "") + "</i>");
        if (hasNested) put(nestedLoc, "<i>nested content</i>");
        w.doc = "<?xml version='1.0'?>" + doctype + body;
    } else {
        std::string mainLoc = D + "/xsd/main.xsd", incLoc = D + "/xsd/parts/inc.xsd", impLoc = D + "/other/imp.xsd";
        bool hasInc = r.chance(2, 3), hasImp = r.chance(1, 2);
        { Ref f; f.kind = "schema_hint"; f.container = w.docLoc; f.expected = mainLoc; f.literal = litFor(r, mainLoc, w.docLoc, http); w.refs.push_back(f); }
        std::string xsd = "<?xml version='1.0'?><xs:schema xmlns:xs='http://www.w3.org/2001/XMLSchema' xmlns:m='urn:imp'>";
        if (hasImp) { Ref f; f.kind = "schema_import"; f.container = mainLoc; f.expected = impLoc; f.literal = "../other/imp.xsd"; f.decoy = D + "/../other/imp.xsd"; f.decoy.clear(); w.refs.push_back(f); xsd += "<xs:import namespace='urn:imp' schemaLocation='../other/imp.xsd'/>"; put(impLoc, "<?xml version='1.0'?><xs:schema xmlns:xs='http://www.w3.org/2001/XMLSchema' targetNamespace='urn:imp'><xs:attribute name='flag' type='xs:boolean'/></xs:schema>"); }
        if (hasInc) { Ref f; f.kind = "schema_include"; f.container = mainLoc; f.expected = incLoc; f.literal = "parts/inc.xsd"; f.decoy = D + "/parts/inc.xsd"; w.refs.push_back(f); xsd += "<xs:include schemaLocation='parts/inc.xsd'/>"; put(incLoc, "<?xml version='1.0'?><xs:schema xmlns:xs='http://www.w3.org/2001/XMLSchema'><xs:simpleType name='small'><xs:restriction base='xs:int'><xs:maxInclusive value='9'/></xs:restriction></xs:simpleType></xs:schema>"); put(f.decoy, "<?xml version='1.0'?><xs:schema xmlns:xs='http://www.w3.org/2001/XMLSchema'><xs:simpleType name='small'><xs:restriction base='xs:string'/></xs:simpleType></xs:schema>"); }
        xsd += std::string("<xs:element name='r'><xs:complexType><xs:sequence><xs:element name='v' type='") + (hasInc ? "small" : "xs:int") + "' maxOccurs='unbounded'/></xs:sequence>" + (hasImp ? "<xs:attribute ref='m:flag'/>" : "") + "</xs:complexType></xs:element></xs:schema>";
        put(mainLoc, xsd);
        w.doc = "<?xml version='1.0'?><r xmlns:xsi='http://www.w3.org/2001/XMLSchema-instance' xsi:noNamespaceSchemaLocation='" + w.refs[0].literal + "'" + (hasImp ? " xmlns:m='urn:imp' m:flag='true'" : "") + "><v>" + std::to_string((int)r.below(20)) + "</v></r>";
    }
    put(w.docLoc, w.doc);
    return w;
}

// resolver driven by the plan; records every offer
struct Offer { std::string pub, sys, base, resolved; bool answered; uint64_t seq; };
struct WorldResolver : public XMLEntityResolver, public EntityResolver, public DOMLSResourceResolver {
    const C19World* world = nullptr; std::set<std::string> answerFor; std::string throwFor; std::vector<Offer> offers; std::vector<std::unique_ptr<std::string>> keep; MemoryManager* mm = XMLPlatformUtils::fgMemoryManager; uint64_t* clock = nullptr;
    InputSource* decide(const std::string& pub, const std::string& sys, const std::string& base) {
        g_run.tick(); Offer o; o.pub = pub; o.sys = sys; o.base = base; o.resolved = base.empty() ? normLoc(sys) : resolveLoc(base, sys); o.seq = clock ? ++*clock : 0; o.answered = false;
        // The SAX1 EntityResolver interface carries no base: it is handed the system id as written. A relative one is
        // then identified by its spelling (the generator gives every reference a distinct literal).
        if (base.empty() && !isAbs(sys)) { for (auto& f : world->refs) if (f.literal == sys) { o.resolved = f.expected; o.base = "(none: matched by literal)"; } g_run.probe("offer_without_base"); }
        g_run.evs("offer", o.resolved);
        if (!throwFor.empty() && o.resolved == throwFor) { offers.push_back(o); g_run.fault("resolver_throw"); throw InjectedSAX(); }
        if (answerFor.count(o.resolved)) {
            const std::string* content = nullptr; auto f = world->files.find(o.resolved); if (f != world->files.end()) content = &f->second; auto n = world->net.find(o.resolved); if (n != world->net.end()) content = &n->second;
            if (content) { o.answered = true; offers.push_back(o); g_run.probe("resolver_answered"); keep.emplace_back(new std::string(*content)); std::u16string s = X(o.resolved); return new (mm) SimInputSource(77, *keep.back(), Schedule(), StreamFaults(), xc(s), mm); }
        }
        offers.push_back(o); g_run.fault("resolver_null"); return nullptr;
    }
    InputSource* resolveEntity(XMLResourceIdentifier* ri) override { return decide(u8(ri->getPublicId()) == "(null)" ? "" : u8(ri->getPublicId()), ri->getSystemId() ? u8(ri->getSystemId()) : "", ri->getBaseURI() ? u8(ri->getBaseURI()) : ""); }
    InputSource* resolveEntity(const XMLCh* const pub, const XMLCh* const sys) override { return decide(pub ? u8(pub) : "", sys ? u8(sys) : "", ""); }
    DOMLSInput* resolveResource(const XMLCh* const, const XMLCh* const, const XMLCh* const pub, const XMLCh* const sys, const XMLCh* const base) override { InputSource* s = decide(pub ? u8(pub) : "", sys ? u8(sys) : "", base ? u8(base) : ""); return s ? new Wrapper4InputSource(s, true, mm) : nullptr; }
};

static Json c19ToJson(const C19World& w) {
    Json j = Json::obj(); j.set("doc_loc", w.docLoc); j.set("schema_flavour", w.schemaFlavour);
    Json f = Json::obj(); for (auto& e : w.files) f.set(e.first, bytesEnc(e.second)); j.set("files", f);
    Json n = Json::obj(); for (auto& e : w.net) n.set(e.first, bytesEnc(e.second)); j.set("net", n);
    Json r = Json::arr(); for (auto& x : w.refs) { Json o = Json::obj(); o.set("kind", x.kind); o.set("literal", x.literal); o.set("container", x.container); o.set("expected", x.expected); if (!x.decoy.empty()) o.set("decoy", x.decoy); o.set("referenced", x.referenced); r.push(o); } j.set("refs", r);
    return j;
}
static C19World c19FromJson(const Json& j) {
    C19World w; w.docLoc = j.gets("doc_loc"); w.schemaFlavour = j.getb("schema_flavour");
    for (auto& e : j.at("files").o) w.files[e.first] = bytesDec(e.second.s); for (auto& e : j.at("net").o) w.net[e.first] = bytesDec(e.second.s);
    for (auto& o : j.at("refs").a) { Ref r; r.kind = o.gets("kind"); r.literal = o.gets("literal"); r.container = o.gets("container"); r.expected = o.gets("expected"); r.decoy = o.gets("decoy"); r.referenced = o.getb("referenced", true); w.refs.push_back(r); }
    auto d = w.files.find(w.docLoc); if (d != w.files.end()) w.doc = d->second; auto n = w.net.find(w.docLoc); if (n != w.net.end()) w.doc = n->second;
    return w;
}

static bool documentedException(const std::string& e) {
    return e.empty() || e == "SAXParseException" || e == "SAXException" || e.rfind("XMLException:", 0) == 0 || e == "DOMException" || e == "DOMLSException" || e == "OutOfMemory" || e == "InjectedSAX" || e == "InjectedForeign";
}

// ---------------------------------------------------------------------------------------------
class WorldEngine : public Engine {
public:
    explicit WorldEngine(const std::string& p) : prop(p) {}
    std::string property() const override { return prop; }
    std::string rule() const override {
        if (prop == "C19") return "one run = one generated world (document in /sim/a or http://sim.test/a referencing an external subset, external general / parameter entities declared in the internal subset and in the external subset, nested and unreferenced entities, or schema location hints with include/import; references spelled relative, absolute, file: or http:; decoy files at the locations a wrong base would produce) x one random configuration (scanner, validation, loadExternalDTD, loadSchema, doSchema, disableDefaultEntityResolution, resolver absent / XMLEntityResolver / SAX or DOM-LS resolver answering a seeded subset, returning null or throwing) parsed once; every file open and network request seen by the simulated world is compared with the permit model; a second sub-mode generates entity DAGs / cycles and checks the SecurityManager bound. distinct = plan hash; non-trivial = at least one external reference was actually offered or opened";
        return "xinclude";
    }
    Json describe() const override {
        Json d = Json::obj();
        Json real = Json::arr(); for (auto s : { "ReaderMgr::createReader / URL and path expansion", "XMLURL", "LocalFileInputSource / URLInputSource / BinFileInputStream", "IG/DG/SG/WF scanners, DTDScanner", "TraverseSchema (schemaLocation, include, import)", "all four parser front ends" }) real.push(s);
        Json stub = Json::arr(); for (auto s : { "XMLFileMgr (in-memory tree, every open logged)", "XMLNetAccessor (table, every request logged)", "entity resolvers (plan-driven, every offer logged)" }) stub.push(s);
        d.set("components_real", real); d.set("components_stubbed", stub); d.set("simulated_time", "logical steps: file-manager calls, net requests, resolver offers, handler callbacks");
        Json as = Json::arr(); as.push("the permit model encodes which configurations may fetch what (from the property statement); the real PosixFileMgr / CurlNetAccessor are replaced, so an access that bypassed XMLPlatformUtils::fgFileMgr / fgNetAccessor would not be seen"); d.set("assumptions", as);
        return d;
    }
    void globalInit() override { if (!inited) { XMLPlatformUtils::Initialize(XMLUni::fgXercescDefaultLocale, 0, 0, new CachingGlobalMM()); inited = true; } }
    uint64_t defaultRuns(const std::string& tier) const override { return tier == "quick" ? 40000 : 800000; }

    Json generate(uint64_t seed, uint64_t index, const std::string& tier) override {
        (void)tier; Rng wr = runRng(seed, index, "workload"), fr = runRng(seed, index, "faults");
        Json plan = Json::obj();
        if (wr.chance(1, 4)) return genExpansion(wr, plan);
        plan.set("mode", "access");
        C19World w = genC19World(wr); plan.set("world", c19ToJson(w));
        ParseCfg c; c.api = (int)wr.below(4); c.scanner = (int)wr.below(10) < 6 ? (int)wr.below(2) * 2 : (int)wr.below(4); c.val = (int)wr.below(3); c.ns = true; c.positions = false;
        c.schema = w.schemaFlavour ? !wr.chance(1, 4) : wr.chance(1, 4); c.loadSchema = !wr.chance(1, 4); c.loadExternalDTD = !wr.chance(1, 3); c.disableDefaultEntityResolution = wr.chance(1, 4); c.standardUri = false; c.entityRefNodes = wr.chance(1, 4);
        if (c.scanner == 3) c.schema = true;
        plan.set("cfg", c.toJson());
        bool http = !w.net.empty(); static const char* fk[] = { "file", "custom", "membuf" }; plan.set("source", http ? (wr.chance(1, 2) ? "url" : "custom") : fk[wr.below(3)]);
        int resolver = (int)wr.below(3); plan.set("resolver", resolver);
        Json ans = Json::arr(); if (resolver) for (auto& f : w.refs) if (fr.chance(1, 3)) ans.push(f.expected); plan.set("resolver_answers", ans);
        if (resolver && !w.refs.empty() && fr.chance(1, 12)) plan.set("resolver_throws_for", w.refs[fr.below(w.refs.size())].expected);
        if (!w.refs.empty() && fr.chance(1, 8)) plan.set("missing", w.refs[fr.below(w.refs.size())].expected);
        return plan;
    }
    Json genExpansion(Rng& wr, Json& plan) {
        plan.set("mode", "expansion");
        unsigned shape = (unsigned)wr.below(10); std::string dtd; std::string body; int depth = wr.range(1, 7);
        if (shape < 6) {        // DAG: e0 = text, e(k) = fan-out references to e(k-1)
            int fan = wr.range(1, 3); dtd += "<!ENTITY e0 'x'>"; for (int k = 1; k <= depth; k++) { dtd += "<!ENTITY e" + std::to_string(k) + " '"; for (int f = 0; f < fan; f++) dtd += "&e" + std::to_string(k - 1) + ";"; dtd += "'>"; }
            int top = wr.range(1, 3); for (int i = 0; i < top; i++) body += "&e" + std::to_string(depth) + ";";
            plan.set("shape", "dag");
        } else if (shape < 8) { // cycle of length `depth`
            for (int k = 0; k < depth; k++) dtd += "<!ENTITY c" + std::to_string(k) + " 'a&c" + std::to_string((k + 1) % depth) + ";'>"; body = "&c0;"; plan.set("shape", "cycle");
        } else {                // parameter-entity amplification inside the internal subset
            dtd += "<!ENTITY % p0 '<!-- x -->'>"; for (int k = 1; k <= depth + 6; k++) dtd += "<!ENTITY % p" + std::to_string(k) + " '%p" + std::to_string(k - 1) + ";%p" + std::to_string(k - 1) + ";'>"; dtd += "%p" + std::to_string(depth + 6) + ";"; body = "t"; plan.set("shape", "pe"); plan.set("pe_expansions", (long long)((1ll << (depth + 7)) - 1));
        }
        plan.set("doc", "<?xml version='1.0'?><!DOCTYPE r [<!ELEMENT r ANY>" + dtd + "]><r>" + body + "</r>");
        plan.set("limit", wr.chance(1, 5) ? 0 : (int)wr.below(40)); plan.set("api", (int)wr.below(4)); plan.set("scanner", wr.coin() ? 0 : 2); plan.set("entity_ref_nodes", wr.chance(1, 3));
        return plan;
    }

    Outcome execute(const Json& plan) override {
        Outcome o; o.fingerprint = fnv1a(plan.dump());
        if (plan.gets("mode") == "expansion") execExpansion(plan, o); else execAccess(plan, o);
        return o;
    }
    std::vector<Json> shrinkCandidates(const Json& plan) override {
        std::vector<Json> c;
        for (const char* k : { "resolver_throws_for", "missing" }) if (plan.has(k)) { Json p = plan; p.erase(k); c.push_back(p); }
        if (plan.has("resolver_answers")) for (size_t i = 0; i < plan.at("resolver_answers").a.size(); i++) { Json p = plan; jsonRemoveAt(p.ref("resolver_answers"), i); c.push_back(p); }
        if (plan.has("cfg")) for (auto& kv : plan.at("cfg").o) if (kv.first != "api" && kv.first != "scanner" && kv.first != "val") { Json p = plan; p.ref("cfg").erase(kv.first); c.push_back(p); }
        if (plan.geti("resolver") != 0) { Json p = plan; p.set("resolver", 0); p.set("resolver_answers", Json::arr()); c.push_back(p); }
        if (plan.has("limit") && plan.geti("limit") > 0) { Json p = plan; p.set("limit", plan.geti("limit") / 2); c.push_back(p); }
        return c;
    }

private:
    std::string prop; bool inited = false;

    void execAccess(const Json& plan, Outcome& o) {
        C19World w = c19FromJson(plan.at("world")); ParseCfg cfg = ParseCfg::fromJson(plan.at("cfg"));
        g_run.reset(2000000);
        std::string missing = plan.gets("missing");
        SimFileMgr* fm = new SimFileMgr(); SimNetAccessor* na = new SimNetAccessor(); fm->cwd = "/sim/a";
        int id = 0; for (auto& f : w.files) { if (f.first == missing) { g_run.fault("file_missing_planned"); continue; } SimFile sf; sf.data = f.second; sf.id = id++; fm->files[f.first] = sf; }
        for (auto& n : w.net) { SimNetResource r; r.data = n.second; r.id = id++; r.refuse = n.first == missing; na->table[n.first] = r; }
        std::vector<Resource> res(1); res[0].name = "doc.xml"; res[0].role = "doc"; res[0].enc = "UTF-8"; res[0].bytes = w.doc;
        ParseEnv env; env.res = &res; env.sourceKind = plan.gets("source", "file"); env.docSysId = w.docLoc; env.docUrl = w.docLoc; env.externalResolver = true;
        int resolverKind = (int)plan.geti("resolver"); uint64_t clock = 0;
        WorldResolver wr; wr.world = &w; wr.clock = &clock; for (auto& a : plan.at("resolver_answers").a) wr.answerFor.insert(a.s); wr.throwFor = plan.gets("resolver_throws_for");
        ParseResult pr; std::vector<std::string> opens; std::vector<std::string> nets;
        try {
            WorldInstall wi(fm, na);
            {
                ParserBox box(cfg.api); box.configure(cfg);
                if (resolverKind == 1) { if (box.sax1()) box.sax1()->setXMLEntityResolver(&wr); else if (box.sax2()) ((SAX2XMLReaderImpl*)box.sax2())->setXMLEntityResolver(&wr); else if (box.dom()) box.dom()->setXMLEntityResolver(&wr); else box.ls()->getDomConfig()->setParameter(XMLUni::fgXercesEntityResolver, (const void*)(XMLEntityResolver*)&wr); }
                else if (resolverKind == 2) { if (box.sax1()) box.sax1()->setEntityResolver(&wr); else if (box.sax2()) box.sax2()->setEntityResolver(&wr); else if (box.dom()) box.dom()->setEntityResolver(&wr); else box.ls()->getDomConfig()->setParameter(XMLUni::fgDOMResourceResolver, (const void*)(DOMLSResourceResolver*)&wr); }
                pr = box.parse(env);
            }
            opens = fm->openLog; nets = na->requests;
            if (fm->liveHandles != 0) { o.violated = true; o.cls = "handle-leak"; o.detail = std::to_string(fm->liveHandles) + " file handles left open after the parser was destroyed"; }
        } catch (const SimAbort&) { o.violated = true; o.cls = "budget"; o.detail = "step budget exceeded"; }
        delete fm; delete na;
        if (o.violated) return;
        if (!documentedException(pr.exception)) { o.violated = true; o.cls = "foreign-exception:" + pr.exception; return; }

        // ---- permit model
        bool dtdScanner = cfg.scanner == 0 || cfg.scanner == 2;              // IG / DG process the DOCTYPE
        bool validating = cfg.val == 1 || cfg.val == 2;                        // auto + DOCTYPE present = validating
        bool extSubsetMay = dtdScanner && (cfg.loadExternalDTD || validating);
        bool schemaMay = cfg.schema && cfg.loadSchema && cfg.scanner != 1 && cfg.scanner != 2;   // WF / DG never do schema
        std::set<std::string> expectedLocs, permitted, decoys;
        for (auto& f : w.refs) {
            expectedLocs.insert(f.expected); if (!f.decoy.empty()) decoys.insert(f.decoy);
            bool may = false;
            if (f.kind == "extsubset") may = extSubsetMay;
            else if (f.kind == "ge" || f.kind == "nested") may = dtdScanner && f.referenced;
            else if (f.kind == "pe") may = dtdScanner;
            else if (f.kind == "xge") may = dtdScanner && extSubsetMay && f.referenced;
            else if (f.kind == "unref") may = false;
            else may = schemaMay;      // schema_hint / include / import
            if (may) permitted.insert(f.expected);
        }
        std::string docN = normLoc(w.docLoc);
        // default opens / requests observed by the simulated world
        std::vector<std::string> touched; for (auto& p : opens) touched.push_back(normLoc(p)); for (auto& u : nets) touched.push_back(normLoc(u));
        size_t external = 0;
        for (auto& t : touched) {
            if (t == docN) continue; external++;
            std::string what = decoys.count(t) ? "decoy" : expectedLocs.count(t) ? "declared" : "unknown";
            if (cfg.disableDefaultEntityResolution) { o.violated = true; o.cls = "opened-although-default-resolution-disabled:" + what; o.detail = "default resolution is disabled but the parser opened " + t; break; }
            if (!permitted.count(t)) {
                o.violated = true;
                if (what == "decoy" || what == "unknown") { o.cls = "opened-wrong-location:" + what; o.detail = "the parser opened " + t + ", which no reference of the document resolves to (wrong base URI?)"; }
                else { const Ref* rf = nullptr; for (auto& f : w.refs) if (f.expected == t) rf = &f; o.cls = std::string("opened-not-permitted:") + (rf ? rf->kind : "?"); o.detail = "the parser opened " + t + " (" + (rf ? rf->kind : "?") + (rf && !rf->referenced ? ", never referenced" : "") + ") although the configuration does not permit it: scanner=" + kScannerNames[cfg.scanner] + " val=" + std::to_string(cfg.val) + " loadExternalDTD=" + (cfg.loadExternalDTD ? "1" : "0") + " schema=" + (cfg.schema ? "1" : "0") + " loadSchema=" + (cfg.loadSchema ? "1" : "0"); }
                break;
            }
        }
        // resolver protocol
        if (!o.violated && resolverKind != 0) {
            for (auto& of : wr.offers) {
                if (of.resolved == docN) continue;
                if (!expectedLocs.count(of.resolved)) { o.violated = true; o.cls = std::string("offer-wrong-location:") + (decoys.count(of.resolved) ? "decoy" : "unknown"); o.detail = "the resolver was offered systemId='" + of.sys + "' base='" + of.base + "' which resolves to " + of.resolved + " - not the location any reference of the document designates"; break; }
                if (of.answered && std::find(touched.begin(), touched.end(), of.resolved) != touched.end()) { o.violated = true; o.cls = "opened-despite-resolver-source"; o.detail = "the resolver supplied a source for " + of.resolved + " but the default location was opened as well"; break; }
            }
            if (!o.violated) for (auto& t : touched) { if (t == docN) continue; bool offered = false; for (auto& of : wr.offers) if (of.resolved == t) offered = true; if (!offered) { o.violated = true; o.cls = "opened-without-offer"; o.detail = t + " was opened by default although it was never offered to the installed resolver"; break; } }
        }
        o.nontrivial = external > 0 || !wr.offers.empty();
        g_run.probes[std::string("cfg_scanner:") + kScannerNames[cfg.scanner]]++; if (cfg.disableDefaultEntityResolution) g_run.probe("cfg_default_resolution_disabled"); if (!extSubsetMay && !w.schemaFlavour) g_run.probe("cfg_ext_subset_forbidden"); if (w.schemaFlavour && !schemaMay) g_run.probe("cfg_schema_forbidden");
        g_run.probes["external_opens"] += external; g_run.probes["resolver_offers"] += wr.offers.size(); for (auto& f : w.refs) g_run.probes["ref:" + f.kind]++;
    }

    // entity-expansion bound / recursion
    void execExpansion(const Json& plan, Outcome& o) {
        std::string doc = plan.gets("doc"); int limit = (int)plan.geti("limit"); std::string shape = plan.gets("shape");
        g_run.reset(30000000);
        std::vector<Resource> res(1); res[0].name = "doc.xml"; res[0].role = "doc"; res[0].enc = "UTF-8"; res[0].bytes = doc;
        ParseEnv env; env.res = &res; env.sourceKind = "membuf"; env.resolver = 0;
        ParseCfg cfg; cfg.api = (int)plan.geti("api", 1); cfg.scanner = (int)plan.geti("scanner", 0); cfg.positions = false; cfg.entityRefNodes = plan.getb("entity_ref_nodes");
        SimFileMgr* fm = new SimFileMgr(); SimNetAccessor* na = new SimNetAccessor();
        ParseResult free_, lim;
        try {
            WorldInstall wi(fm, na);
            if (shape != "cycle" && shape != "pe") { ParserBox b(cfg.api); b.configure(cfg); free_ = b.parse(env); }
            cfg.secMgr = true; cfg.entityLimit = limit;
            { ParserBox b(cfg.api); b.configure(cfg); lim = b.parse(env); }
        } catch (const SimAbort&) { o.violated = true; o.cls = "budget:" + shape; o.detail = "entity processing did not stop within the step budget (limit " + std::to_string(limit) + ")"; }
        delete fm; delete na;
        if (o.violated) return;
        o.nontrivial = true; g_run.probes["expansion_shape:" + shape]++;
        auto count = [](const std::string& s, const char* needle) { size_t n = 0, p = 0; while ((p = s.find(needle, p)) != std::string::npos) { n++; p++; } return n; };
        bool limitHit = lim.dump.find("expansion") != std::string::npos && lim.fatals > 0;
        if (shape == "cycle") { if (lim.fatals == 0 && lim.exception.empty()) { o.violated = true; o.cls = "cycle-not-reported"; o.detail = "self-referential entities were expanded without a fatal error"; } return; }
        if (shape == "pe") {
            long long e = plan.geti("pe_expansions");
            if (e > limit && !limitHit) { o.violated = true; o.cls = "pe-expansion-unbounded"; o.detail = std::to_string(e) + " parameter-entity expansions were performed although the SecurityManager limit is " + std::to_string(limit) + " (no EntityExpansionLimitExceeded error)"; }
            return;
        }
        // general entities: the unrestricted parse tells how many expansions the document needs (SAX2 reports each as startEntity)
        size_t need = cfg.api == API_SAX2 ? count(free_.dump, "\nstartEntity ") : 0;
        if (cfg.api == API_SAX2) {
            size_t done = count(lim.dump, "\nstartEntity ");
            if (need > (size_t)limit) { g_run.probe("over_limit");
                if (!limitHit) { o.violated = true; o.cls = "limit-not-enforced"; o.detail = "the document needs " + std::to_string(need) + " entity expansions, the limit is " + std::to_string(limit) + ", but no expansion-limit fatal error was reported"; }
                else if (done > (size_t)limit) { o.violated = true; o.cls = "limit-enforced-too-late"; o.detail = std::to_string(done) + " expansions were started before the limit " + std::to_string(limit) + " stopped the parse"; } }
            else { g_run.probe("within_limit"); if (lim.dump != free_.dump) { o.violated = true; o.cls = "within-limit-affected"; o.detail = "the document needs " + std::to_string(need) + " expansions (limit " + std::to_string(limit) + ") but its result differs from the parse without a SecurityManager"; } }
        } else {
            // other APIs: only the two clear-cut cases (limit generous / limit zero with at least one reference)
            if (limit == 0 && free_.fatals == 0 && !limitHit) { o.violated = true; o.cls = "limit-not-enforced"; o.detail = "limit 0 but a document with entity references was accepted"; }
        }
    }
};

int main(int argc, char** argv) {
    return driverMain(argc, argv, [](const std::string& p) -> Engine* { if (p == "C19") return new WorldEngine(p); return nullptr; });
}
