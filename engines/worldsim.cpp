// worldsim: the parser in a simulated file system + network + application resolver.
//   C19  no external resource is touched unless referenced and permitted; resolver protocol; base-URI resolution;
//        entity-expansion bound and recursion
//   C20  XInclude: merged tree, fallback, loops (reference expander over the generator's own tree model)
#include "../sim/parserun.hpp"
#include "../sim/schedgen.hpp"

using namespace sim;

// ---------------------------------------------------------------------------------------------
// location helpers (RFC 2396 resolution restricted to the forms the generator uses)
static std::string stripFileScheme(const std::string& s) {
    if (s.compare(0, 8, "file:///") == 0) return s.substr(7);
    if (s.compare(0, 6, "file:/") == 0 && s.compare(0, 7, "file://") != 0) return s.substr(5);
    return s;
}
static bool isAbs(const std::string& s) { return !s.empty() && (s[0] == '/' || s.find("://") != std::string::npos || s.compare(0, 5, "file:") == 0); }
static std::string normLoc(std::string s) {
    s = stripFileScheme(s);
    std::string scheme; size_t p = s.find("://"); if (p != std::string::npos) { size_t slash = s.find('/', p + 3); scheme = s.substr(0, slash == std::string::npos ? s.size() : slash); s = slash == std::string::npos ? "/" : s.substr(slash); }
    return scheme + SimFileMgr::normalize(s);
}
static std::string resolveLoc(const std::string& base, const std::string& ref) {
    if (isAbs(ref)) return normLoc(ref);
    std::string b = normLoc(base); size_t slash = b.rfind('/'); std::string dir = slash == std::string::npos ? std::string() : b.substr(0, slash + 1);
    return normLoc(dir + ref);
}

// ---------------------------------------------------------------------------------------------
struct Ref { std::string kind, literal, container, expected, decoy; bool referenced = true; };

struct C19World {
    std::map<std::string, std::string> files;     // absolute path -> content
    std::map<std::string, std::string> net;       // url -> content
    std::string docLoc; std::string doc; std::vector<Ref> refs; bool schemaFlavour = false;
};

static std::string litFor(Rng& r, const std::string& expected, const std::string& containerLoc, bool httpWorld) {
    // how the reference is spelled: relative to its container, absolute, or file:/http: URL
    std::string cdir = containerLoc.substr(0, containerLoc.rfind('/') + 1);
    unsigned k = (unsigned)r.below(10);
    std::string rel = expected.compare(0, cdir.size(), cdir) == 0 ? expected.substr(cdir.size()) : expected;
    if (k < 6 && rel != expected) return (r.chance(1, 6) ? "./" : "") + rel;
    if (httpWorld) return expected;
    if (k < 8) return expected;                 // absolute path
    return "file://" + expected;                // file URL
}

static C19World genC19World(Rng& r) {
    C19World w; bool http = r.chance(1, 4); std::string D = http ? "http://sim.test/a" : "/sim/a";
    w.docLoc = D + "/doc.xml"; w.schemaFlavour = r.chance(2, 5);
    auto put = [&](const std::string& loc, const std::string& content) { if (http) w.net[loc] = content; else w.files[loc] = content; };
    if (!w.schemaFlavour) {
        bool hasExt = r.chance(3, 4), hasGe = r.chance(3, 4), hasPe = r.chance(1, 2), hasXge = hasExt && r.chance(1, 2), hasNested = hasGe && r.chance(1, 2), hasUnref = r.chance(2, 3);
        std::string extLoc = D + "/dtd/ext.dtd", geLoc = D + "/ents/ge.ent", peLoc = D + "/ents/pe.ent", xgeLoc = D + "/dtd/sub/xge.ent", nestedLoc = D + "/n/nested.ent", unrefLoc = D + "/ents/unref.ent";
        std::string subset;
        subset += "<!ELEMENT r ANY><!ELEMENT i ANY><!ELEMENT frompe ANY>";
        if (hasGe) { Ref f; f.kind = "ge"; f.container = w.docLoc; f.expected = geLoc; f.literal = litFor(r, geLoc, w.docLoc, http); f.referenced = r.chance(4, 5); w.refs.push_back(f); subset += "<!ENTITY ge SYSTEM '" + f.literal + "'>"; }
        if (hasNested) { Ref f; f.kind = "nested"; f.container = w.docLoc; f.expected = nestedLoc; f.literal = "n/nested.ent"; f.decoy = D + "/ents/n/nested.ent"; f.referenced = w.refs.back().referenced; w.refs.push_back(f); subset += "<!ENTITY nested SYSTEM '" + f.literal + "'>"; put(f.decoy, "<i>DECOY nested resolved against the referencing entity</i>"); }
        if (hasUnref) { Ref f; f.kind = "unref"; f.container = w.docLoc; f.expected = unrefLoc; f.literal = litFor(r, unrefLoc, w.docLoc, http); f.referenced = false; w.refs.push_back(f); subset += "<!ENTITY unref SYSTEM '" + f.literal + "'>"; put(unrefLoc, "<i>never referenced</i>"); }
        if (hasPe) { Ref f; f.kind = "pe"; f.container = w.docLoc; f.expected = peLoc; f.literal = litFor(r, peLoc, w.docLoc, http); w.refs.push_back(f); subset += "<!ENTITY % pe SYSTEM '" + f.literal + "'>%pe;"; put(peLoc, "<!ATTLIST frompe a CDATA 'v'>"); }
        std::string doctype = "<!DOCTYPE r";
        if (hasExt) { Ref f; f.kind = "extsubset"; f.container = w.docLoc; f.expected = extLoc; f.literal = litFor(r, extLoc, w.docLoc, http); w.refs.push_back(f); doctype += (r.chance(1, 4) ? " PUBLIC '-//SIM//DTD//EN' '" : " SYSTEM '") + f.literal + "'";
            std::string ext = "<!ELEMENT fromext ANY>";
            if (hasXge) { Ref g; g.kind = "xge"; g.container = extLoc; g.expected = xgeLoc; g.literal = "sub/xge.ent"; g.decoy = D + "/sub/xge.ent"; g.referenced = r.chance(4, 5); w.refs.push_back(g); ext += "<!ENTITY xge SYSTEM 'sub/xge.ent'>"; put(xgeLoc, "<i>xge content</i>"); put(g.decoy, "<i>DECOY xge resolved against the document</i>"); }
            put(extLoc, ext); }
        doctype += " [" + subset + "]>";
        std::string body = "<r>text";
        for (auto& f : w.refs) { if (f.kind == "ge" && f.referenced) body += "&ge;"; if (f.kind == "xge" && f.referenced) body += "<i>&xge;</i>"; }
        body += "</r>";
        if (hasGe) put(geLoc, std::string("<i>ge content") + (hasNested ? "&nested;" : "") + "</i>");
        if (hasNested) put(nestedLoc, "<i>nested content</i>");
        w.doc = "<?xml version='1.0'?>" + doctype + body;
    } else {
        std::string mainLoc = D + "/xsd/main.xsd", incLoc = D + "/xsd/parts/inc.xsd", impLoc = D + "/other/imp.xsd";
        bool hasInc = r.chance(2, 3), hasImp = r.chance(1, 2);
        { Ref f; f.kind = "schema_hint"; f.container = w.docLoc; f.expected = mainLoc; f.literal = litFor(r, mainLoc, w.docLoc, http); w.refs.push_back(f); }
        std::string xsd = "<?xml version='1.0'?><xs:schema xmlns:xs='http://www.w3.org/2001/XMLSchema' xmlns:m='urn:imp'>";
        if (hasImp) { Ref f; f.kind = "schema_import"; f.container = mainLoc; f.expected = impLoc; f.literal = "../other/imp.xsd"; f.decoy = D + "/../other/imp.xsd"; f.decoy.clear(); w.refs.push_back(f); xsd += "<xs:import namespace='urn:imp' schemaLocation='../other/imp.xsd'/>"; put(impLoc, "<?xml version='1.0'?><xs:schema xmlns:xs='http://www.w3.org/2001/XMLSchema' targetNamespace='urn:imp'><xs:attribute name='flag' type='xs:boolean'/></xs:schema>"); }
        if (hasInc) { Ref f; f.kind = "schema_include"; f.container = mainLoc; f.expected = incLoc; f.literal = "parts/inc.xsd"; f.decoy = D + "/parts/inc.xsd"; w.refs.push_back(f); xsd += "<xs:include schemaLocation='parts/inc.xsd'/>"; put(incLoc, "<?xml version='1.0'?><xs:schema xmlns:xs='http://www.w3.org/2001/XMLSchema'><xs:simpleType name='small'><xs:restriction base='xs:int'><xs:maxInclusive value='9'/></xs:restriction></xs:simpleType></xs:schema>"); put(f.decoy, "<?xml version='1.0'?><xs:schema xmlns:xs='http://www.w3.org/2001/XMLSchema'><xs:simpleType name='small'><xs:restriction base='xs:string'/></xs:simpleType></xs:schema>"); }
        xsd += std::string("<xs:element name='r'><xs:complexType><xs:sequence><xs:element name='v' type='") + (hasInc ? "small" : "xs:int") + "' maxOccurs='unbounded'/></xs:sequence>" + (hasImp ? "<xs:attribute ref='m:flag'/>" : "") + "</xs:complexType></xs:element></xs:schema>";
        put(mainLoc, xsd);
        w.doc = "<?xml version='1.0'?><r xmlns:xsi='http://www.w3.org/2001/XMLSchema-instance' xsi:noNamespaceSchemaLocation='" + w.refs[0].literal + "'" + (hasImp ? " xmlns:m='urn:imp' m:flag='true'" : "") + "><v>" + std::to_string((int)r.below(20)) + "</v></r>";
    }
    put(w.docLoc, w.doc);
    return w;
}

// resolver driven by the plan; records every offer
struct Offer { std::string pub, sys, base, resolved; bool answered; uint64_t seq; };
struct WorldResolver : public XMLEntityResolver, public EntityResolver, public DOMLSResourceResolver {
    const C19World* world = nullptr; std::set<std::string> answerFor; std::string throwFor; std::vector<Offer> offers; std::vector<std::unique_ptr<std::string>> keep; MemoryManager* mm = XMLPlatformUtils::fgMemoryManager; uint64_t* clock = nullptr;
    InputSource* decide(const std::string& pub, const std::string& sys, const std::string& base) {
        g_run.tick(); Offer o; o.pub = pub; o.sys = sys; o.base = base; o.resolved = base.empty() ? normLoc(sys) : resolveLoc(base, sys); o.seq = clock ? ++*clock : 0; o.answered = false;
        // The SAX1 EntityResolver interface carries no base: it is handed the system id as written. A relative one is
        // then identified by its spelling (the generator gives every reference a distinct literal).
        if (base.empty() && !isAbs(sys)) { for (auto& f : world->refs) if (f.literal == sys) { o.resolved = f.expected; o.base = "(none: matched by literal)"; } g_run.probe("offer_without_base"); }
        g_run.evs("offer", o.resolved);
        if (!throwFor.empty() && o.resolved == throwFor) { offers.push_back(o); g_run.fault("resolver_throw"); throw InjectedSAX(); }
        if (answerFor.count(o.resolved)) {
            const std::string* content = nullptr; auto f = world->files.find(o.resolved); if (f != world->files.end()) content = &f->second; auto n = world->net.find(o.resolved); if (n != world->net.end()) content = &n->second;
            if (content) { o.answered = true; offers.push_back(o); g_run.probe("resolver_answered"); keep.emplace_back(new std::string(*content)); std::u16string s = X(o.resolved); return new (mm) SimInputSource(77, *keep.back(), Schedule(), StreamFaults(), xc(s), mm); }
        }
        offers.push_back(o); g_run.fault("resolver_null"); return nullptr;
    }
    InputSource* resolveEntity(XMLResourceIdentifier* ri) override { return decide(u8(ri->getPublicId()) == "(null)" ? "" : u8(ri->getPublicId()), ri->getSystemId() ? u8(ri->getSystemId()) : "", ri->getBaseURI() ? u8(ri->getBaseURI()) : ""); }
    InputSource* resolveEntity(const XMLCh* const pub, const XMLCh* const sys) override { return decide(pub ? u8(pub) : "", sys ? u8(sys) : "", ""); }
    DOMLSInput* resolveResource(const XMLCh* const, const XMLCh* const, const XMLCh* const pub, const XMLCh* const sys, const XMLCh* const base) override { InputSource* s = decide(pub ? u8(pub) : "", sys ? u8(sys) : "", base ? u8(base) : ""); return s ? new Wrapper4InputSource(s, true, mm) : nullptr; }
};

static Json c19ToJson(const C19World& w) {
    Json j = Json::obj(); j.set("doc_loc", w.docLoc); j.set("schema_flavour", w.schemaFlavour);
    Json f = Json::obj(); for (auto& e : w.files) f.set(e.first, bytesEnc(e.second)); j.set("files", f);
    Json n = Json::obj(); for (auto& e : w.net) n.set(e.first, bytesEnc(e.second)); j.set("net", n);
    Json r = Json::arr(); for (auto& x : w.refs) { Json o = Json::obj(); o.set("kind", x.kind); o.set("literal", x.literal); o.set("container", x.container); o.set("expected", x.expected); if (!x.decoy.empty()) o.set("decoy", x.decoy); o.set("referenced", x.referenced); r.push(o); } j.set("refs", r);
    return j;
}
static C19World c19FromJson(const Json& j) {
    C19World w; w.docLoc = j.gets("doc_loc"); w.schemaFlavour = j.getb("schema_flavour");
    for (auto& e : j.at("files").o) w.files[e.first] = bytesDec(e.second.s); for (auto& e : j.at("net").o) w.net[e.first] = bytesDec(e.second.s);
    for (auto& o : j.at("refs").a) { Ref r; r.kind = o.gets("kind"); r.literal = o.gets("literal"); r.container = o.gets("container"); r.expected = o.gets("expected"); r.decoy = o.gets("decoy"); r.referenced = o.getb("referenced", true); w.refs.push_back(r); }
    auto d = w.files.find(w.docLoc); if (d != w.files.end()) w.doc = d->second; auto n = w.net.find(w.docLoc); if (n != w.net.end()) w.doc = n->second;
    return w;
}

static bool documentedException(const std::string& e) {
    return e.empty() || e == "SAXParseException" || e == "SAXException" || e.rfind("XMLException:", 0) == 0 || e == "DOMException" || e == "DOMLSException" || e == "OutOfMemory" || e == "InjectedSAX" || e == "InjectedForeign";
}

// ---------------------------------------------------------------------------------------------
class WorldEngine : public Engine {
public:
    explicit WorldEngine(const std::string& p) : prop(p) {}
    std::string property() const override { return prop; }
    std::string rule() const override {
        if (prop == "C19") return "one run = one generated world (document in /sim/a or http://sim.test/a referencing an external subset, external general / parameter entities declared in the internal subset and in the external subset, nested and unreferenced entities, or schema location hints with include/import; references spelled relative, absolute, file: or http:; decoy files at the locations a wrong base would produce) x one random configuration (scanner, validation, loadExternalDTD, loadSchema, doSchema, disableDefaultEntityResolution, resolver absent / XMLEntityResolver / SAX or DOM-LS resolver answering a seeded subset, returning null or throwing) parsed once; every file open and network request seen by the simulated world is compared with the permit model; a second sub-mode generates entity DAGs / cycles and checks the SecurityManager bound. distinct = plan hash; non-trivial = at least one external reference was actually offered or opened";
        return "xinclude";
    }
    Json describe() const override {
        Json d = Json::obj();
        Json real = Json::arr(); for (auto s : { "ReaderMgr::createReader / URL and path expansion", "XMLURL", "LocalFileInputSource / URLInputSource / BinFileInputStream", "IG/DG/SG/WF scanners, DTDScanner", "TraverseSchema (schemaLocation, include, import)", "all four parser front ends" }) real.push(s);
        Json stub = Json::arr(); for (auto s : { "XMLFileMgr (in-memory tree, every open logged)", "XMLNetAccessor (table, every request logged)", "entity resolvers (plan-driven, every offer logged)" }) stub.push(s);
        d.set("components_real", real); d.set("components_stubbed", stub); d.set("simulated_time", "logical steps: file-manager calls, net requests, resolver offers, handler callbacks");
        Json as = Json::arr(); as.push("the permit model encodes which configurations may fetch what (from the property statement); the real PosixFileMgr / CurlNetAccessor are replaced, so an access that bypassed XMLPlatformUtils::fgFileMgr / fgNetAccessor would not be seen"); d.set("assumptions", as);
        return d;
    }
    void globalInit() override { if (!inited) { XMLPlatformUtils::Initialize(XMLUni::fgXercescDefaultLocale, 0, 0, new CachingGlobalMM()); inited = true; } }
    uint64_t defaultRuns(const std::string& tier) const override { return tier == "quick" ? 200000 : 3000000; }

    Json generate(uint64_t seed, uint64_t index, const std::string& tier) override {
        (void)tier; Rng wr = runRng(seed, index, "workload"), fr = runRng(seed, index, "faults");
        Json plan = Json::obj();
        if (wr.chance(1, 4)) return genExpansion(wr, plan);
        plan.set("mode", "access");
        C19World w = genC19World(wr); plan.set("world", c19ToJson(w));
        ParseCfg c; c.api = (int)wr.below(4); c.scanner = (int)wr.below(10) < 6 ? (int)wr.below(2) * 2 : (int)wr.below(4); c.val = (int)wr.below(3); c.ns = true; c.positions = false;
        c.schema = w.schemaFlavour ? !wr.chance(1, 4) : wr.chance(1, 4); c.loadSchema = !wr.chance(1, 4); c.loadExternalDTD = !wr.chance(1, 3); c.disableDefaultEntityResolution = wr.chance(1, 4); c.standardUri = false; c.entityRefNodes = wr.chance(1, 4);
        if (c.scanner == 3) c.schema = true;
        if (wr.chance(1, 6)) { c.disallowDoctype = true; c.exitOnFirstFatal = wr.coin(); }      // DOCTYPE not allowed at all: whether or not the parse goes on behind the fatal error, nothing the DTD names may be fetched
        plan.set("cfg", c.toJson());
        bool http = !w.net.empty(); static const char* fk[] = { "file", "custom", "membuf" }; plan.set("source", http ? (wr.chance(1, 2) ? "url" : "custom") : fk[wr.below(3)]);
        int resolver = (int)wr.below(3); plan.set("resolver", resolver);
        Json ans = Json::arr(); if (resolver) for (auto& f : w.refs) if (fr.chance(1, 3)) ans.push(f.expected); plan.set("resolver_answers", ans);
        if (resolver && !w.refs.empty() && fr.chance(1, 12)) plan.set("resolver_throws_for", w.refs[fr.below(w.refs.size())].expected);
        if (!w.refs.empty() && fr.chance(1, 8)) plan.set("missing", w.refs[fr.below(w.refs.size())].expected);
        return plan;
    }
    Json genExpansion(Rng& wr, Json& plan) {
        plan.set("mode", "expansion");
        unsigned shape = (unsigned)wr.below(10); std::string dtd; std::string body; int depth = wr.range(1, 7);
        if (shape < 6) {        // DAG: e0 = text, e(k) = fan-out references to e(k-1)
            int fan = wr.range(1, 3); dtd += "<!ENTITY e0 'x'>"; for (int k = 1; k <= depth; k++) { dtd += "<!ENTITY e" + std::to_string(k) + " '"; for (int f = 0; f < fan; f++) dtd += "&e" + std::to_string(k - 1) + ";"; dtd += "'>"; }
            int top = wr.range(1, 3); for (int i = 0; i < top; i++) body += "&e" + std::to_string(depth) + ";";
            plan.set("shape", "dag");
        } else if (shape < 8) { // cycle of length `depth`
            for (int k = 0; k < depth; k++) dtd += "<!ENTITY c" + std::to_string(k) + " 'a&c" + std::to_string((k + 1) % depth) + ";'>"; body = "&c0;"; plan.set("shape", "cycle");
        } else {                // parameter-entity amplification inside the internal subset
            dtd += "<!ENTITY % p0 '<!-- x -->'>"; for (int k = 1; k <= depth + 6; k++) dtd += "<!ENTITY % p" + std::to_string(k) + " '%p" + std::to_string(k - 1) + ";%p" + std::to_string(k - 1) + ";'>"; dtd += "%p" + std::to_string(depth + 6) + ";"; body = "t"; plan.set("shape", "pe"); plan.set("pe_expansions", (long long)((1ll << (depth + 7)) - 1));
        }
        plan.set("doc", "<?xml version='1.0'?><!DOCTYPE r [<!ELEMENT r ANY>" + dtd + "]><r>" + body + "</r>");
        plan.set("limit", wr.chance(1, 5) ? 0 : (int)wr.below(40)); plan.set("api", (int)wr.below(4)); plan.set("scanner", wr.coin() ? 0 : 2); plan.set("entity_ref_nodes", wr.chance(1, 3));
        plan.set("limit_late", wr.chance(1, 3));      // the application sets the limit after it has installed the manager
        return plan;
    }

    Outcome execute(const Json& plan) override {
        Outcome o; o.fingerprint = fnv1a(plan.dump());
        if (plan.gets("mode") == "expansion") execExpansion(plan, o); else execAccess(plan, o);
        return o;
    }
    std::vector<Json> shrinkCandidates(const Json& plan) override {
        std::vector<Json> c;
        for (const char* k : { "resolver_throws_for", "missing" }) if (plan.has(k)) { Json p = plan; p.erase(k); c.push_back(p); }
        if (plan.has("resolver_answers")) for (size_t i = 0; i < plan.at("resolver_answers").a.size(); i++) { Json p = plan; jsonRemoveAt(p.ref("resolver_answers"), i); c.push_back(p); }
        if (plan.has("cfg")) for (auto& kv : plan.at("cfg").o) if (kv.first != "api" && kv.first != "scanner" && kv.first != "val") { Json p = plan; p.ref("cfg").erase(kv.first); c.push_back(p); }
        if (plan.geti("resolver") != 0) { Json p = plan; p.set("resolver", 0); p.set("resolver_answers", Json::arr()); c.push_back(p); }
        if (plan.has("limit") && plan.geti("limit") > 0) { Json p = plan; p.set("limit", plan.geti("limit") / 2); c.push_back(p); }
        return c;
    }

private:
    std::string prop; bool inited = false;

    void execAccess(const Json& plan, Outcome& o) {
        C19World w = c19FromJson(plan.at("world")); ParseCfg cfg = ParseCfg::fromJson(plan.at("cfg"));
        g_run.reset(2000000);
        std::string missing = plan.gets("missing");
        SimFileMgr* fm = new SimFileMgr(); SimNetAccessor* na = new SimNetAccessor(); fm->cwd = "/sim/a";
        int id = 0; for (auto& f : w.files) { if (f.first == missing) { g_run.fault("file_missing_planned"); continue; } SimFile sf; sf.data = f.second; sf.id = id++; fm->files[f.first] = sf; }
        for (auto& n : w.net) { SimNetResource r; r.data = n.second; r.id = id++; r.refuse = n.first == missing; na->table[n.first] = r; }
        std::vector<Resource> res(1); res[0].name = "doc.xml"; res[0].role = "doc"; res[0].enc = "UTF-8"; res[0].bytes = w.doc;
        ParseEnv env; env.res = &res; env.sourceKind = plan.gets("source", "file"); env.docSysId = w.docLoc; env.docUrl = w.docLoc; env.externalResolver = true;
        int resolverKind = (int)plan.geti("resolver"); uint64_t clock = 0;
        WorldResolver wr; wr.world = &w; wr.clock = &clock; for (auto& a : plan.at("resolver_answers").a) wr.answerFor.insert(a.s); wr.throwFor = plan.gets("resolver_throws_for");
        ParseResult pr; std::vector<std::string> opens; std::vector<std::string> nets;
        try {
            WorldInstall wi(fm, na);
            {
                ParserBox box(cfg.api); box.configure(cfg);
                if (resolverKind == 1) { if (box.sax1()) box.sax1()->setXMLEntityResolver(&wr); else if (box.sax2()) ((SAX2XMLReaderImpl*)box.sax2())->setXMLEntityResolver(&wr); else if (box.dom()) box.dom()->setXMLEntityResolver(&wr); else box.ls()->getDomConfig()->setParameter(XMLUni::fgXercesEntityResolver, (const void*)(XMLEntityResolver*)&wr); }
                else if (resolverKind == 2) { if (box.sax1()) box.sax1()->setEntityResolver(&wr); else if (box.sax2()) box.sax2()->setEntityResolver(&wr); else if (box.dom()) box.dom()->setEntityResolver(&wr); else box.ls()->getDomConfig()->setParameter(XMLUni::fgDOMResourceResolver, (const void*)(DOMLSResourceResolver*)&wr); }
                pr = box.parse(env);
            }
            opens = fm->openLog; nets = na->requests;
            if (fm->liveHandles != 0) { o.violated = true; o.cls = "handle-leak"; o.detail = std::to_string(fm->liveHandles) + " file handles left open after the parser was destroyed"; }
        } catch (const SimAbort&) { o.violated = true; o.cls = "budget"; o.detail = "step budget exceeded"; }
        delete fm; delete na;
        if (o.violated) return;
        if (!documentedException(pr.exception)) { o.violated = true; o.cls = "foreign-exception:" + pr.exception; return; }

        // ---- permit model
        bool dtdScanner = (cfg.scanner == 0 || cfg.scanner == 2) && !cfg.disallowDoctype;              // IG / DG process the DOCTYPE - unless the configuration does not allow one
        if (cfg.disallowDoctype) g_run.probe("cfg_disallow_doctype");
        bool validating = cfg.val == 1 || cfg.val == 2;                        // auto + DOCTYPE present = validating
        bool extSubsetMay = dtdScanner && (cfg.loadExternalDTD || validating);
        bool schemaMay = cfg.schema && cfg.loadSchema && cfg.scanner != 1 && cfg.scanner != 2;   // WF / DG never do schema
        std::set<std::string> expectedLocs, permitted, decoys;
        for (auto& f : w.refs) {
            expectedLocs.insert(f.expected); if (!f.decoy.empty()) decoys.insert(f.decoy);
            bool may = false;
            if (f.kind == "extsubset") may = extSubsetMay;
            else if (f.kind == "ge" || f.kind == "nested") may = dtdScanner && f.referenced;
            else if (f.kind == "pe") may = dtdScanner;
            else if (f.kind == "xge") may = dtdScanner && extSubsetMay && f.referenced;
            else if (f.kind == "unref") may = false;
            else may = schemaMay;      // schema_hint / include / import
            if (may) permitted.insert(f.expected);
        }
        std::string docN = normLoc(w.docLoc);
        // default opens / requests observed by the simulated world
        std::vector<std::string> touched; for (auto& p : opens) touched.push_back(normLoc(p)); for (auto& u : nets) touched.push_back(normLoc(u));
        size_t external = 0;
        for (auto& t : touched) {
            if (t == docN) continue; external++;
            std::string what = decoys.count(t) ? "decoy" : expectedLocs.count(t) ? "declared" : "unknown";
            if (cfg.disableDefaultEntityResolution) { o.violated = true; o.cls = "opened-although-default-resolution-disabled:" + what; o.detail = "default resolution is disabled but the parser opened " + t; break; }
            if (!permitted.count(t)) {
                o.violated = true;
                if (what == "decoy" || what == "unknown") { o.cls = "opened-wrong-location:" + what; o.detail = "the parser opened " + t + ", which no reference of the document resolves to (wrong base URI?)"; }
                else { const Ref* rf = nullptr; for (auto& f : w.refs) if (f.expected == t) rf = &f; o.cls = std::string("opened-not-permitted:") + (rf ? rf->kind : "?"); o.detail = "the parser opened " + t + " (" + (rf ? rf->kind : "?") + (rf && !rf->referenced ? ", never referenced" : "") + ") although the configuration does not permit it: scanner=" + kScannerNames[cfg.scanner] + " val=" + std::to_string(cfg.val) + " loadExternalDTD=" + (cfg.loadExternalDTD ? "1" : "0") + " schema=" + (cfg.schema ? "1" : "0") + " loadSchema=" + (cfg.loadSchema ? "1" : "0"); }
                break;
            }
        }
        // resolver protocol
        if (!o.violated && resolverKind != 0) {
            for (auto& of : wr.offers) {
                if (of.resolved == docN) continue;
                if (!expectedLocs.count(of.resolved)) { o.violated = true; o.cls = std::string("offer-wrong-location:") + (decoys.count(of.resolved) ? "decoy" : "unknown"); o.detail = "the resolver was offered systemId='" + of.sys + "' base='" + of.base + "' which resolves to " + of.resolved + " - not the location any reference of the document designates"; break; }
                if (of.answered && std::find(touched.begin(), touched.end(), of.resolved) != touched.end()) { o.violated = true; o.cls = "opened-despite-resolver-source"; o.detail = "the resolver supplied a source for " + of.resolved + " but the default location was opened as well"; break; }
            }
            if (!o.violated) for (auto& t : touched) { if (t == docN) continue; bool offered = false; for (auto& of : wr.offers) if (of.resolved == t) offered = true; if (!offered) { o.violated = true; o.cls = "opened-without-offer"; o.detail = t + " was opened by default although it was never offered to the installed resolver"; break; } }
        }
        o.nontrivial = external > 0 || !wr.offers.empty();
        g_run.probes[std::string("cfg_scanner:") + kScannerNames[cfg.scanner]]++; if (cfg.disableDefaultEntityResolution) g_run.probe("cfg_default_resolution_disabled"); if (!extSubsetMay && !w.schemaFlavour) g_run.probe("cfg_ext_subset_forbidden"); if (w.schemaFlavour && !schemaMay) g_run.probe("cfg_schema_forbidden");
        g_run.probes["external_opens"] += external; g_run.probes["resolver_offers"] += wr.offers.size(); for (auto& f : w.refs) g_run.probes["ref:" + f.kind]++;
    }

    // entity-expansion bound / recursion
    void execExpansion(const Json& plan, Outcome& o) {
        std::string doc = plan.gets("doc"); int limit = (int)plan.geti("limit"); std::string shape = plan.gets("shape");
        g_run.reset(30000000);
        std::vector<Resource> res(1); res[0].name = "doc.xml"; res[0].role = "doc"; res[0].enc = "UTF-8"; res[0].bytes = doc;
        ParseEnv env; env.res = &res; env.sourceKind = "membuf"; env.resolver = 0;
        ParseCfg cfg; cfg.api = (int)plan.geti("api", 1); cfg.scanner = (int)plan.geti("scanner", 0); cfg.positions = false; cfg.entityRefNodes = plan.getb("entity_ref_nodes");
        SimFileMgr* fm = new SimFileMgr(); SimNetAccessor* na = new SimNetAccessor();
        ParseResult free_, lim;
        try {
            WorldInstall wi(fm, na);
            if (shape != "cycle" && shape != "pe") { ParserBox b(cfg.api); b.configure(cfg); free_ = b.parse(env); }
            cfg.secMgr = true; cfg.entityLimit = limit;
            { ParserBox b(cfg.api); b.limitAfterInstall = plan.getb("limit_late"); b.configure(cfg); lim = b.parse(env); }
        } catch (const SimAbort&) { o.violated = true; o.cls = "budget:" + shape; o.detail = "entity processing did not stop within the step budget (limit " + std::to_string(limit) + ")"; }
        delete fm; delete na;
        if (o.violated) return;
        o.nontrivial = true; g_run.probes["expansion_shape:" + shape]++;
        auto count = [](const std::string& s, const char* needle) { size_t n = 0, p = 0; while ((p = s.find(needle, p)) != std::string::npos) { n++; p++; } return n; };
        bool limitHit = lim.dump.find("expansion") != std::string::npos && lim.fatals > 0;
        if (shape == "cycle") { if (lim.fatals == 0 && lim.exception.empty()) { o.violated = true; o.cls = "cycle-not-reported"; o.detail = "self-referential entities were expanded without a fatal error"; } return; }
        if (shape == "pe") {
            long long e = plan.geti("pe_expansions");
            if (e > limit && !limitHit) { o.violated = true; o.cls = "pe-expansion-unbounded"; o.detail = std::to_string(e) + " parameter-entity expansions were performed although the SecurityManager limit is " + std::to_string(limit) + " (no EntityExpansionLimitExceeded error)"; }
            return;
        }
        // general entities: the unrestricted parse tells how many expansions the document needs (SAX2 reports each as startEntity)
        size_t need = cfg.api == API_SAX2 ? count(free_.dump, "\nstartEntity ") : 0;
        if (cfg.api == API_SAX2) {
            size_t done = count(lim.dump, "\nstartEntity ");
            if (need > (size_t)limit) { g_run.probe("over_limit");
                if (!limitHit) { o.violated = true; o.cls = "limit-not-enforced"; o.detail = "the document needs " + std::to_string(need) + " entity expansions, the limit is " + std::to_string(limit) + ", but no expansion-limit fatal error was reported"; }
                else if (done > (size_t)limit) { o.violated = true; o.cls = "limit-enforced-too-late"; o.detail = std::to_string(done) + " expansions were started before the limit " + std::to_string(limit) + " stopped the parse"; } }
            else { g_run.probe("within_limit"); if (lim.dump != free_.dump) { o.violated = true; o.cls = "within-limit-affected"; o.detail = "the document needs " + std::to_string(need) + " expansions (limit " + std::to_string(limit) + ") but its result differs from the parse without a SecurityManager"; } }
        } else {
            // other APIs: only the two clear-cut cases (limit generous / limit zero with at least one reference)
            if (limit == 0 && free_.fatals == 0 && !limitHit) { o.violated = true; o.cls = "limit-not-enforced"; o.detail = "limit 0 but a document with entity references was accepted"; }
        }
    }
};


// =============================================================================================
// C20: XInclude. The generator owns a tree model of every file; the reference expander works on that model.
struct XNode {
    int kind = 0;                    // 0 element, 1 text, 2 comment, 3 xi:include, 4 orphan xi:fallback
    std::string name, text; std::vector<std::pair<std::string, std::string>> attrs; std::vector<XNode> kids;
    std::string href, parse, encoding; bool xpointer = false; int nFallback = 0; std::vector<XNode> fallback;
};
struct XFile { std::string path; bool isText = false; std::string textContent, textEnc; XNode root; bool leadingComment = false; bool missing = false, openFails = false, torn = false; std::string storedXml; };

static std::string xmlEsc(const std::string& s, bool attr) { std::string o; for (char c : s) { if (c == '<') o += "&lt;"; else if (c == '&') o += "&amp;"; else if (c == '>') o += "&gt;"; else if (attr && c == '"') o += "&quot;"; else o += c; } return o; }
static void serialize(const XNode& n, std::string& o) {
    switch (n.kind) {
    case 0: { o += "<" + n.name; for (auto& a : n.attrs) o += " " + a.first + "=\"" + xmlEsc(a.second, true) + "\""; if (n.kids.empty()) { o += "/>"; return; } o += ">"; for (auto& k : n.kids) serialize(k, o); o += "</" + n.name + ">"; return; }
    case 1: o += xmlEsc(n.text, false); return;
    case 2: o += "<!--" + n.text + "-->"; return;
    case 3: { o += "<xi:include"; for (auto& a : n.attrs) o += " " + a.first + "=\"" + xmlEsc(a.second, true) + "\""; if (!n.href.empty()) o += " href=\"" + n.href + "\""; if (!n.parse.empty()) o += " parse=\"" + n.parse + "\""; if (!n.encoding.empty()) o += " encoding=\"" + n.encoding + "\""; if (n.xpointer) o += " xpointer=\"element(/1)\"";
        if (n.nFallback == 0) { o += "/>"; return; } o += ">"; for (int f = 0; f < n.nFallback; f++) { o += "<xi:fallback>"; if (f == 0) for (auto& k : n.fallback) serialize(k, o); o += "</xi:fallback>"; } o += "</xi:include>"; return; }
    case 4: o += "<xi:fallback><e/></xi:fallback>"; return;
    }
}
static std::string dirOf(const std::string& p) { return p.substr(0, p.rfind('/') + 1); }
static std::string relPath(const std::string& fromFile, const std::string& to) {
    std::string fd = dirOf(fromFile); if (to.compare(0, fd.size(), fd) == 0) return to.substr(fd.size());
    std::string up; std::string d = fd; while (d.size() > 1 && to.compare(0, d.size(), d) != 0) { d = dirOf(d.substr(0, d.size() - 1)); up += "../"; } return up + to.substr(d.size());
}

struct XWorld { std::vector<XFile> files; const XFile* find(const std::string& p) const { for (auto& f : files) if (f.path == p) return &f; return nullptr; } };

// reference expansion: returns false when the specification demands an error for this document
static bool expandKids(const XWorld& w, const XFile& file, const std::vector<XNode>& kids, std::vector<std::string>& stack, std::vector<XNode>& out, std::string& why);
static bool expandInclude(const XWorld& w, const XFile& file, const XNode& inc, std::vector<std::string>& stack, std::vector<XNode>& out, std::string& why) {
    if (inc.nFallback > 1) { why = "two fallbacks"; return false; }
    if (inc.href.empty()) { why = "no href"; return false; }
    if (inc.xpointer) { why = "xpointer"; return false; }
    if (!inc.parse.empty() && inc.parse != "xml" && inc.parse != "text") { why = "bad parse value"; return false; }
    std::string target = SimFileMgr::normalize(dirOf(file.path) + inc.href); const XFile* t = w.find(target);
    bool text = inc.parse == "text";
    bool available = t && !t->missing && !t->openFails && (text || (!t->torn && !t->isText));   // a torn file is still perfectly good *text*
    if (!text && available) { if (target == file.path || std::find(stack.begin(), stack.end(), target) != stack.end()) { why = "inclusion loop via " + target; return false; } }
    if (!available) { if (inc.nFallback == 0) { why = "unavailable target without fallback: " + target; return false; } return expandKids(w, file, inc.fallback, stack, out, why); }
    if (text) { XNode n; n.kind = 1; n.text = t->isText ? t->textContent : t->storedXml; out.push_back(n); return true; }
    stack.push_back(target);
    if (t->leadingComment) { XNode c; c.kind = 2; c.text = "lead"; out.push_back(c); }
    std::vector<XNode> docElem{ t->root }; bool ok = expandKids(w, *t, docElem, stack, out, why);      // (the document element may itself be an xi:include)
    stack.pop_back();
    return ok;
}
static bool expandKids(const XWorld& w, const XFile& file, const std::vector<XNode>& kids, std::vector<std::string>& stack, std::vector<XNode>& out, std::string& why) {
    for (auto& k : kids) {
        if (k.kind == 3) { if (!expandInclude(w, file, k, stack, out, why)) return false; }
        else if (k.kind == 4) { why = "orphan fallback"; return false; }
        else if (k.kind == 0) { XNode e = k; std::vector<XNode> sub; if (!expandKids(w, file, k.kids, stack, sub, why)) return false; e.kids = sub; out.push_back(e); }
        else out.push_back(k);
    }
    return true;
}

static Json xnodeToJson(const XNode& n) {
    Json j = Json::obj(); j.set("k", n.kind); if (!n.name.empty()) j.set("n", n.name); if (!n.text.empty()) j.set("t", bytesEnc(n.text));
    if (!n.attrs.empty()) { Json a = Json::arr(); for (auto& x : n.attrs) { Json p = Json::arr(); p.push(x.first); p.push(x.second); a.push(p); } j.set("a", a); }
    if (!n.kids.empty()) { Json c = Json::arr(); for (auto& k : n.kids) c.push(xnodeToJson(k)); j.set("c", c); }
    if (n.kind == 3) { j.set("href", n.href); if (!n.parse.empty()) j.set("parse", n.parse); if (!n.encoding.empty()) j.set("enc", n.encoding); if (n.xpointer) j.set("xp", true); j.set("nf", n.nFallback); if (!n.fallback.empty()) { Json c = Json::arr(); for (auto& k : n.fallback) c.push(xnodeToJson(k)); j.set("fb", c); } }
    return j;
}
static XNode xnodeFromJson(const Json& j) {
    XNode n; n.kind = (int)j.geti("k"); n.name = j.gets("n"); n.text = bytesDec(j.gets("t")); for (auto& p : j.at("a").a) if (p.a.size() == 2) n.attrs.emplace_back(p.a[0].s, p.a[1].s); for (auto& c : j.at("c").a) n.kids.push_back(xnodeFromJson(c));
    n.href = j.gets("href"); n.parse = j.gets("parse"); n.encoding = j.gets("enc"); n.xpointer = j.getb("xp"); n.nFallback = (int)j.geti("nf"); for (auto& c : j.at("fb").a) n.fallback.push_back(xnodeFromJson(c));
    return n;
}

class XIncEngine : public Engine {
public:
    std::string property() const override { return "C20"; }
    std::string rule() const override { return "one run = one generated inclusion graph over 3-7 files in nested directories of the simulated file system (relative hrefs incl. '../', repeated includes, includes at any depth incl. inside included content, parse=xml and parse=text with UTF-8 / UTF-16 / ISO-8859-1 text, cycles and self-inclusion, targets missing / unopenable / torn, fallbacks with nested includes, invalid usages: unknown parse value, xpointer, two fallbacks, orphan fallback, missing href), every file read through a seeded short-read schedule, processed by XercesDOMParser or DOMLSParser with XInclude on; the merged tree (xml:base attributes set aside) must equal the expansion computed by the reference expander over the generator's tree model with the same fault decisions, or - where the specification demands an error - an error must be reported and processing must end within the step budget. distinct = plan hash; non-trivial = at least one xi:include was processed"; }
    Json describe() const override {
        Json d = Json::obj(); Json real = Json::arr(); for (auto s : { "XIncludeUtils / XIncludeLocation / XIncludeDOMDocumentProcessor", "XercesDOMParser, DOMLSParserImpl, AbstractDOMParser", "DOMDocumentImpl::importNode, replaceChild", "LocalFileInputSource / URLInputSource / BinFileInputStream, transcoders" }) real.push(s);
        Json stub = Json::arr(); for (auto s : { "XMLFileMgr (in-memory tree with short-read schedules, missing / unopenable files)", "XMLNetAccessor (empty)" }) stub.push(s);
        d.set("components_real", real); d.set("components_stubbed", stub); d.set("simulated_time", "logical steps: file-manager calls and handler callbacks");
        Json as = Json::arr(); as.push("xml:base attributes are not compared literally; base fix-up is judged by whether nested relative hrefs inside included content reach the files the model says they designate"); d.set("assumptions", as); return d;
    }
    void globalInit() override { if (!inited) { XMLPlatformUtils::Initialize(XMLUni::fgXercescDefaultLocale, 0, 0, new CachingGlobalMM()); inited = true; } }
    uint64_t defaultRuns(const std::string& tier) const override { return tier == "quick" ? 200000 : 3000000; }

    // the encoding of a text file is a function of its name, so that includes generated before the file know it
    static std::string textEncOf(const std::string& path) { unsigned h = (unsigned)(fnv1a(path) % 4); return h == 2 ? "UTF-16" : h == 3 ? "ISO-8859-1" : ""; }
    XNode genContent(Rng& r, const std::vector<std::string>& paths, const std::string& self, int depth, bool allowBad) {
        XNode e; e.kind = 0; e.name = std::string("e") + (char)('a' + r.below(5)); if (r.chance(1, 3)) e.attrs.emplace_back("k", "v" + std::to_string(r.below(9)));
        int n = depth >= 2 ? 0 : r.range(0, 3); bool lastWasText = true;     // never two text-ish nodes in a row, never an include next to text
        for (int i = 0; i < n; i++) {
            unsigned k = (unsigned)r.below(10);
            if (k < 4) { e.kids.push_back(genContent(r, paths, self, depth + 1, allowBad)); lastWasText = false; }
            else if (k < 5) { XNode c; c.kind = 2; c.text = "c" + std::to_string(r.below(99)); e.kids.push_back(c); lastWasText = false; }
            else if (k < 6 && !lastWasText && i + 1 < n) { XNode t; t.kind = 1; t.text = "txt" + std::to_string(r.below(99)) + (r.chance(1, 4) ? " a<b&c" : ""); e.kids.push_back(t); XNode sep; sep.kind = 0; sep.name = "sep"; e.kids.push_back(sep); lastWasText = false; }
            else { XNode inc; inc.kind = 3; std::string target = paths[r.below(paths.size())];
                // mostly forward references (acyclic); one time in six any file, which makes loops and self-inclusion
                if (!r.chance(1, 6)) { size_t me = 0; for (size_t q = 0; q < paths.size(); q++) if (paths[q] == self) me = q; if (me + 1 < paths.size()) target = paths[me + 1 + r.below(paths.size() - me - 1)]; }
                inc.href = relPath(self, target);
                bool isTxt = target.size() > 4 && target.compare(target.size() - 4, 4, ".txt") == 0;
                if (isTxt || r.chance(1, 8)) inc.parse = "text"; else if (r.coin()) inc.parse = "xml";
                if (isTxt) inc.encoding = textEncOf(target);
                if (allowBad && r.chance(1, 25)) { unsigned b = (unsigned)r.below(5); if (b == 0) inc.parse = "bogus"; else if (b == 1) inc.xpointer = true; else if (b == 2) inc.nFallback = 2; else if (b == 3) inc.href.clear(); else { XNode of; of.kind = 4; e.kids.push_back(of); } }
                if (inc.nFallback == 0 && r.chance(1, 2)) { inc.nFallback = 1; int fn = r.range(0, 2); for (int f = 0; f < fn; f++) inc.fallback.push_back(genContent(r, paths, self, depth + 2, false)); }
                e.kids.push_back(inc); lastWasText = false; }
        }
        return e;
    }
    Json generate(uint64_t seed, uint64_t index, const std::string& tier) override {
        (void)tier; Rng wr = runRng(seed, index, "workload"), cr = runRng(seed, index, "chunks"), fr = runRng(seed, index, "faults");
        static const char* dirs[] = { "/sim/x/", "/sim/x/sub/", "/sim/x/sub/deep/", "/sim/x/other/" };
        int nXml = wr.range(2, 5), nTxt = wr.range(0, 2); std::vector<std::string> paths; paths.push_back("/sim/x/main.xml");
        for (int i = 1; i < nXml; i++) paths.push_back(std::string(dirs[wr.below(4)]) + "f" + std::to_string(i) + ".xml");
        for (int i = 0; i < nTxt; i++) paths.push_back(std::string(dirs[wr.below(4)]) + "t" + std::to_string(i) + ".txt");
        if (wr.chance(1, 3)) paths.push_back("/sim/x/sub/nowhere.xml");      // a target that will not exist
        Json files = Json::arr(); bool allowBad = wr.chance(1, 4);
        for (auto& p : paths) {
            Json f = Json::obj(); f.set("path", p);
            if (p.find("nowhere") != std::string::npos) { f.set("missing", true); files.push(f); continue; }
            if (p.compare(p.size() - 4, 4, ".txt") == 0) { std::string enc = textEncOf(p); f.set("text", true); f.set("enc", enc);
                std::string t = "plain <text> & more"; int n = wr.range(1, 30); for (int i = 0; i < n; i++) t += (enc == "ISO-8859-1" || wr.coin()) ? "caf\xc3\xa9 " : "\xe6\xbc\xa2\xe5\xad\x97 "; f.set("content", bytesEnc(t)); }
            else if (p != "/sim/x/main.xml" && wr.chance(1, 6) && (size_t)(&p - &paths[0]) + 1 < (size_t)nXml) {      // an included document whose document element is itself an xi:include (of a later file, usually in another directory)
                XNode inc; inc.kind = 3; size_t me = (size_t)(&p - &paths[0]); std::string target = paths[me + 1 + wr.below((size_t)nXml - me - 1)]; inc.href = relPath(p, target); if (wr.coin()) inc.parse = "xml"; inc.attrs.emplace_back("xmlns:xi", "http://www.w3.org/2001/XInclude");
                if (wr.chance(1, 3)) { inc.nFallback = 1; inc.fallback.push_back(genContent(wr, paths, p, 2, false)); }
                f.set("root", xnodeToJson(inc)); f.set("lead", wr.chance(1, 5)); }
            else { XNode root = genContent(wr, paths, p, 0, allowBad); root.name = "d" + std::to_string(&p - &paths[0]); root.attrs.insert(root.attrs.begin(), std::make_pair(std::string("xmlns:xi"), std::string("http://www.w3.org/2001/XInclude"))); f.set("root", xnodeToJson(root)); f.set("lead", wr.chance(1, 5)); }
            if (p != "/sim/x/main.xml" && fr.chance(1, 10)) { unsigned k = (unsigned)fr.below(3); f.set(k == 0 ? "missing" : k == 1 ? "open_fails" : "torn", true); }
            f.set("sched", (cr.coin() ? Schedule() : genSchedule(cr, 2000)).toJson());
            files.push(f);
        }
        Json plan = Json::obj(); plan.set("mode", "xinclude"); plan.set("files", files); plan.set("api", wr.coin() ? API_DOM : API_DOMLS); plan.set("source", wr.chance(3, 4) ? "file" : "custom");
        return plan;
    }
    Outcome execute(const Json& plan) override {
        Outcome o; o.fingerprint = fnv1a(plan.dump()); g_run.reset(5000000);
        XWorld w; std::map<std::string, Schedule> scheds;
        for (auto& fj : plan.at("files").a) { XFile f; f.path = fj.gets("path"); f.missing = fj.getb("missing"); f.openFails = fj.getb("open_fails"); f.torn = fj.getb("torn"); f.isText = fj.getb("text"); f.textEnc = fj.gets("enc"); f.textContent = bytesDec(fj.gets("content")); f.leadingComment = fj.getb("lead"); if (fj.has("root")) f.root = xnodeFromJson(fj.at("root")); scheds[f.path] = Schedule::fromJson(fj.at("sched")); w.files.push_back(f); }
        const XFile* mainF = w.find("/sim/x/main.xml"); if (!mainF) return o;
        // ---- simulated file system
        SimFileMgr* fm = new SimFileMgr(); SimNetAccessor* na = new SimNetAccessor(); fm->cwd = "/sim/x"; int id = 0;
        std::string mainBytes;
        for (auto& f : w.files) {
            if (f.missing) continue; SimFile sf; sf.id = id++; sf.openFails = f.openFails; sf.sched = scheds[f.path];
            if (f.isText) { if (f.textEnc == "UTF-16") { std::u16string u = X(f.textContent); sf.data = "\xFF\xFE"; for (char16_t c : u) { sf.data += (char)(c & 0xFF); sf.data += (char)(c >> 8); } } else if (f.textEnc == "ISO-8859-1") { std::u16string u = X(f.textContent); for (char16_t c : u) sf.data += (char)(c & 0xFF); } else sf.data = f.textContent; }
            else { std::string s = "<?xml version=\"1.0\"?>"; if (f.leadingComment) s += "<!--lead-->"; serialize(f.root, s); if (f.torn) s.resize(s.size() * 2 / 3); sf.data = s; f.storedXml = s; }
            if (f.path == mainF->path) mainBytes = sf.data;
            fm->files[f.path] = sf;
        }
        // ---- reference expansion
        std::vector<std::string> stack; stack.push_back(mainF->path); std::vector<XNode> kids; std::string why; XNode expRoot = mainF->root;
        bool expectOk = expandKids(w, *mainF, mainF->root.kids, stack, kids, why); expRoot.kids = kids;
        std::string expectedXml = "<?xml version=\"1.0\"?>"; if (mainF->leadingComment) expectedXml += "<!--lead-->"; serialize(expRoot, expectedXml);
        ParseCfg cfg; cfg.api = (int)plan.geti("api", API_DOM); cfg.ns = true; cfg.positions = false; cfg.doXInclude = true;
        std::vector<Resource> res(1); res[0].name = "doc.xml"; res[0].role = "doc"; res[0].enc = "UTF-8"; res[0].bytes = mainBytes;
        ParseEnv env; env.res = &res; env.sourceKind = plan.gets("source", "file"); env.docSysId = mainF->path; env.resolver = 0;
        ParseResult got, want;
        try {
            WorldInstall wi(fm, na);
            { ParserBox b(cfg.api); b.configure(cfg); got = b.parse(env); }
            if (expectOk) { ParseCfg c2 = cfg; c2.doXInclude = false; std::vector<Resource> r2(1); r2[0] = res[0]; r2[0].bytes = expectedXml; ParseEnv e2; e2.res = &r2; e2.sourceKind = "membuf"; e2.docSysId = mainF->path; e2.resolver = 0; ParserBox b(c2.api); b.configure(c2); want = b.parse(e2); }
            if (getenv("VERIF_DEBUG_DUMPS")) { fprintf(stderr, "==== opens:"); for (auto& p : fm->openLog) fprintf(stderr, " %s", p.c_str()); fprintf(stderr, "\n==== expected xml (%s): %s\n==== got\n%s\n==== want\n%s\n", expectOk ? "ok" : why.c_str(), expectedXml.c_str(), got.dump.c_str(), want.dump.c_str()); }
            if (fm->liveHandles != 0) { o.violated = true; o.cls = "handle-leak"; o.detail = std::to_string(fm->liveHandles) + " file handles left open"; }
        } catch (const SimAbort&) { o.violated = true; o.cls = std::string("budget:") + (expectOk ? "acyclic" : "error-case"); o.detail = "XInclude processing did not end within the step budget (" + why + ")"; }
        delete fm; delete na;
        if (o.violated) return o;
        size_t nInc = 0; { std::string s; serialize(mainF->root, s); size_t p = 0; while ((p = s.find("<xi:include", p)) != std::string::npos) { nInc++; p++; } }
        o.nontrivial = nInc > 0; g_run.probes[expectOk ? "expect_merged_tree" : "expect_error"]++; if (!expectOk) { std::string key = why.substr(0, why.find(':')); size_t via = key.find(" via"); if (via != std::string::npos) key.resize(via); g_run.probes["error_case:" + key]++; }
        if (!documentedException(got.exception)) { o.violated = true; o.cls = "foreign-exception:" + got.exception; return o; }
        if (!expectOk) {
            if (got.fatals + got.errors + got.warnings == 0 && got.exception.empty()) { o.violated = true; o.cls = "error-not-reported:" + why.substr(0, why.find(':')); o.detail = "the specification demands an error (" + why + ") but nothing was reported"; }
            return o;
        }
        // strip xml:base attribute lines and the DOC header (document URI / encoding differ by construction)
        auto strip = [](const std::string& d) { std::string out; size_t i = 0; while (i < d.size()) { size_t e = d.find('\n', i); if (e == std::string::npos) e = d.size(); std::string line = d.substr(i, e - i); i = e + 1; if (line.find("{http://www.w3.org/XML/1998/namespace}base") != std::string::npos || line.find(" xml:base=\"") != std::string::npos) continue;
            if (line.find("{http://www.w3.org/2000/xmlns/}xmlns xmlns=\"\" ") != std::string::npos) continue;    /* redundant un-declaration added by namespace fix-up */ if (line.compare(0, 4, "DOC ") == 0 || line.compare(0, 7, "WARNING") == 0 || line.compare(0, 5, "ERROR") == 0) continue; out += line; out += '\n'; } return out; };
        std::string g = strip(got.dump), x = strip(want.dump);
        if (want.fatals || !want.exception.empty()) { o.violated = false; g_run.probe("reference_xml_unparsable"); return o; }
        if (got.fatals || !got.exception.empty()) { o.violated = true; o.cls = "fatal-on-valid-inclusion"; o.detail = "all inclusions are satisfiable but processing reported a fatal error: " + got.dump.substr(0, 300); return o; }
        if (g != x) { std::string dd; size_t i = 0, la = 0; int line = 1; while (i < g.size() && i < x.size() && g[i] == x[i]) { if (g[i] == '\n') { la = i + 1; line++; } i++; } size_t ea = x.find('\n', la), eb = g.find('\n', la);
            std::string lx = x.substr(la, ea == std::string::npos ? std::string::npos : ea - la), lg = la <= g.size() ? g.substr(la, eb == std::string::npos ? std::string::npos : eb - la) : "";
            std::string tok = lx.empty() ? "extra" : lx.substr(lx.find_first_not_of(' '), 1); o.violated = true; o.cls = "merged-tree-differs:" + std::string(tok == "T" ? "text" : tok == "E" ? "element" : tok == "!" ? "comment" : tok == "A" ? "attribute" : "other");
            o.detail = "line " + std::to_string(line) + ": expected=<" + lx.substr(0, 200) + "> got=<" + lg.substr(0, 200) + ">"; }
        return o;
    }
    std::vector<Json> shrinkCandidates(const Json& plan) override {
        std::vector<Json> c; const Json& fs = plan.at("files");
        for (size_t i = 1; i < fs.a.size(); i++) { Json p = plan; jsonRemoveAt(p.ref("files"), i); c.push_back(p); }
        for (size_t i = 0; i < fs.a.size(); i++) { for (const char* k : { "missing", "open_fails", "torn", "lead" }) if (fs.a[i].getb(k)) { Json p = plan; p.ref("files").a[i].erase(k); c.push_back(p); } if (fs.a[i].at("sched").at("sizes").a.size() || fs.a[i].at("sched").geti("rest") < (1 << 20)) { Json p = plan; Json s = Json::obj(); s.set("sizes", Json::arr()); s.set("rest", 1 << 30); p.ref("files").a[i].set("sched", s); c.push_back(p); } }
        // drop children of any node (depth-first positions)
        for (size_t i = 0; i < fs.a.size(); i++) if (fs.a[i].has("root")) { std::vector<std::vector<size_t>> paths; collect(fs.a[i].at("root"), {}, paths); for (auto& pth : paths) { Json p = plan; Json* n = &p.ref("files").a[i].ref("root"); for (size_t d = 0; d + 1 < pth.size(); d++) n = &n->ref("c").a[pth[d]]; jsonRemoveAt(n->ref("c"), pth.back()); c.push_back(p); if (c.size() > 400) return c; } }
        return c;
    }
    static void collect(const Json& n, std::vector<size_t> prefix, std::vector<std::vector<size_t>>& out) { const Json& c = n.at("c"); for (size_t i = 0; i < c.a.size(); i++) { auto p = prefix; p.push_back(i); out.push_back(p); collect(c.a[i], p, out); } }
private:
    bool inited = false;
};

int main(int argc, char** argv) {
    return driverMain(argc, argv, [](const std::string& p) -> Engine* { if (p == "C19") return new WorldEngine(p); if (p == "C20") return new XIncEngine(); return nullptr; });
}
