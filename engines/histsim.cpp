// histsim: properties about stateful objects and lifetimes.
//   C18  MemoryManager discipline for every way a parse can end + Initialize/Terminate lifecycle  (fault enumeration)
//   C15  parser history independence (faulted / abandoned / reconfigured parses) and cached-grammar transparency
//   C16  serialised grammar pool survives a simulated restart
// Real xerces-c code; simulated streams, file system, network, handlers and memory managers.
#include "../sim/parserun.hpp"
#include "../sim/schedgen.hpp"
#include "../sim/schemaworld.hpp"
#include <xercesc/util/TransService.hpp>
#define POOLSIM_NO_MAIN
#include "poolsim.cpp"      // PoolBox, Collect, generators and the cached-grammar sub-mode of C15 (PoolTransparency)

using namespace sim;

static std::string firstDiffLine(const std::string& a, const std::string& b, std::string& detail) {
    size_t i = 0, la = 0; int line = 1;
    while (i < a.size() && i < b.size() && a[i] == b[i]) { if (a[i] == '\n') { la = i + 1; line++; } i++; }
    size_t ea = a.find('\n', la), eb = b.find('\n', la);
    std::string x = a.substr(la, ea == std::string::npos ? std::string::npos : ea - la), y = la <= b.size() ? b.substr(la, eb == std::string::npos ? std::string::npos : eb - la) : "";
    detail = "line " + std::to_string(line) + ": expected=<" + x.substr(0, 240) + "> got=<" + y.substr(0, 240) + ">";
    std::string tok = x.substr(0, x.find(' ')); if (tok.empty()) tok = y.substr(0, y.find(' ')); if (tok.empty()) tok = "eof";
    for (auto& c : tok) if (!isalnum((unsigned char)c)) c = '_';
    return tok;
}

// world of one document: resources + per-parse environment pieces taken from a JSON "doc" / "op"
struct DocWorld { std::vector<Resource> res; };

static void fillEnv(const Json& op, ParseEnv& env) {
    env.sourceKind = op.gets("source", "custom"); env.resolver = (int)op.geti("resolver", 1);
    for (auto& kv : op.at("sched").o) env.sched[kv.first] = Schedule::fromJson(kv.second);
    for (auto& kv : op.at("faults").o) env.sfaults[kv.first] = StreamFaults::fromJson(kv.second);
    if (op.has("handler_throw")) { env.handlerThrowAt = op.at("handler_throw").geti("at", -1); env.handlerFlavour = (int)op.at("handler_throw").geti("flavour", 0); }
    if (op.has("progressive")) { env.progressiveSteps = op.at("progressive").geti("steps", -1); env.progressiveReset = op.at("progressive").getb("reset", true); }
    env.resolverThrows = op.getb("resolver_throws", false); env.resolverNullFor = op.gets("resolver_null_for");
}

static void installFiles(SimFileMgr* fm, const std::vector<Resource>& res, const ParseEnv& env) {
    int id = 0;
    for (auto& r : res) { SimFile f; f.data = r.bytes; f.sched = env.schedFor(r.name); f.id = id++; StreamFaults sf = env.faultsFor(r.name); if (sf.truncateAt >= 0 && (size_t)sf.truncateAt < f.data.size()) f.data.resize((size_t)sf.truncateAt); f.readThrowAt = sf.throwAtRead; fm->files["/sim/" + r.name] = std::move(f); }
    if (env.sourceKind == "stdin") { fm->hasStdin = true; fm->stdinFile = fm->files["/sim/doc.xml"]; }
}

static bool documentedException(const std::string& e) {
    return e.empty() || e == "SAXParseException" || e == "SAXException" || e.rfind("XMLException:", 0) == 0 || e == "DOMException" || e == "DOMLSException" || e == "OutOfMemory" || e == "InjectedSAX" || e == "InjectedForeign";
}

// ---------------------------------------------------------------------------------------------
class HistEngine : public Engine {
public:
    explicit HistEngine(const std::string& p) : prop(p) {}
    std::string property() const override { return prop; }
    std::string level() const override { return prop == "C18" ? "fault_enumeration" : "exploration"; }
    std::string rule() const override {
        if (prop == "C18") return "one run = Initialize(custom global manager, nesting 1..3) -> for one generated world and configuration EVERY ending of the parse is executed on a parser that owns a ledger memory manager: natural end (success / fatal error), handler exception at every callback k (three exception flavours), progressive parse abandoned after every step (with and without parseReset), stream failure at every read, adopt-document lifetimes, reuse; after each parser is destroyed its ledger must be empty, no foreign / double free may occur; after the last Terminate the global ledger must be empty and a re-initialised library must give the same dump. distinct = plan hash; non-trivial = at least one injected ending actually fired";
        return "one run = one long-lived parser object driven through a seeded history of operations (parse of documents that share element names / IDs / entity names, with handler exceptions, stream failures, truncation, abandoned progressive parses, reconfiguration, document-pool resets, adoptDocument); after every operation the result must equal that of a freshly constructed parser performing only that operation; adopted documents must be unchanged at the end. distinct = plan hash; non-trivial = the history contains at least one faulted/abandoned operation followed by another parse";
    }
    Json describe() const override {
        Json d = Json::obj();
        Json real = Json::arr(); for (auto s : { "all four parser front ends", "IG/WF/DG/SG scanners incl. scanReset/cleanUp paths", "ReaderMgr / XMLReader", "DTD scanner / validator", "DOMDocumentImpl heap", "XMLPlatformUtils::Initialize/Terminate, XMLInitializer static registries", "Janitors / exception unwinding paths" }) real.push(s);
        Json stub = Json::arr(); for (auto s : { "MemoryManager (SimMemoryManager ledger over malloc, freed blocks quarantined+poisoned)", "XMLFileMgr / XMLNetAccessor (simulated)", "streams, resolvers, handlers" }) stub.push(s);
        d.set("components_real", real); d.set("components_stubbed", stub);
        d.set("simulated_time", "logical steps: one tick per allocation, stream read, file-manager call and handler callback");
        Json as = Json::arr();
        as.push("static clang -O1 ASan+UBSan build of /repo's working tree");
        if (prop == "C18") { as.push("allocations that bypass MemoryManager (plain new/malloc inside the library) are not covered by the ledger; LSan is not run (ptrace-based stop-the-world is not reliable in this sandbox)"); as.push("OutOfMemoryException endings are outside the statement's list of endings and are not judged by the leak oracle"); }
        d.set("assumptions", as);
        return d;
    }
    void globalInit() override { if (prop != "C18" && !inited) { XMLPlatformUtils::Initialize(XMLUni::fgXercescDefaultLocale, 0, 0, new CachingGlobalMM()); inited = true; } }
    uint64_t defaultRuns(const std::string& tier) const override {
        if (prop == "C18") return tier == "quick" ? 15000 : 200000;
        return tier == "quick" ? 150000 : 2000000;
    }
    Json generate(uint64_t seed, uint64_t index, const std::string& tier) override { if (prop == "C15") { uint64_t m = runRng(seed, index, "mode").below(6); if (m == 0) return PoolTransparency::generate(runRng(seed, index, "pool"), tier);      // a sixth of the C15 runs: the cached-grammar clauses
            if (m == 1) return SchemaHistory::generate(runRng(seed, index, "schemahist"), tier); }      // another sixth: histories of schema-validated parses
        return prop == "C18" ? genC18(seed, index, tier) : genC15(seed, index, tier); }
    Outcome execute(const Json& plan) override {
        Outcome o; o.fingerprint = fnv1a(plan.dump());
        if (plan.gets("mode") == "C15pool") PoolTransparency::execute(plan, o); else if (plan.gets("mode") == "C15schema") SchemaHistory::execute(plan, o); else if (prop == "C18") execC18(plan, o); else execC15(plan, o);
        return o;
    }
    Json sampleView(const Json& plan) override {
        Json p = plan;
        auto trim = [](Json& res) { for (auto& r : res.a) { std::string b = r.gets("bytes"); if (b.size() > 300) r.set("bytes", b.substr(0, 300) + "...(" + std::to_string(b.size()) + " chars)"); } };
        if (p.has("resources")) trim(p.ref("resources"));
        if (p.has("docs")) for (auto& d : p.ref("docs").a) trim(d.ref("resources"));
        return p;
    }
    std::vector<Json> shrinkCandidates(const Json& plan) override {
        std::vector<Json> c;
        if (plan.gets("mode") == "C15pool") return PoolTransparency::shrinkCandidates(plan);
        if (plan.gets("mode") == "C15schema") return SchemaHistory::shrinkCandidates(plan);
        if (prop == "C18") {
            if (plan.has("pick") && plan.at("pick").a.size() > 1) { size_t n = plan.at("pick").a.size(); { Json p = plan; p.ref("pick").a.resize(n / 2); c.push_back(p); } { Json p = plan; Json& a = p.ref("pick"); a.a.erase(a.a.begin(), a.a.begin() + (long)(n / 2)); c.push_back(p); } for (size_t i = 0; i < n && i < 40; i++) { Json p = plan; jsonRemoveAt(p.ref("pick"), i); c.push_back(p); } }
            if (plan.geti("nest", 1) > 1) { Json p = plan; p.set("nest", 1); c.push_back(p); }
            if (plan.getb("second_cycle")) { Json p = plan; p.set("second_cycle", false); c.push_back(p); }
            for (auto& kv : plan.at("cfg").o) if (kv.first != "api" && kv.first != "scanner" && kv.first != "val") { Json p = plan; p.ref("cfg").erase(kv.first); c.push_back(p); }
            for (size_t i = 1; i < plan.at("resources").a.size(); i++) { Json p = plan; jsonRemoveAt(p.ref("resources"), i); c.push_back(p); }
            shrinkBytes(plan, "resources", c);
        } else {
            const Json& ops = plan.at("ops");
            for (size_t i = 0; i < ops.a.size(); i++) { Json p = plan; jsonRemoveAt(p.ref("ops"), i); c.push_back(p); }
            for (size_t i = 0; i < ops.a.size(); i++) {
                for (const char* k : { "handler_throw", "progressive", "resolver_throws", "resolver_null_for", "adopt" }) if (ops.a[i].has(k)) { Json p = plan; p.ref("ops").a[i].erase(k); c.push_back(p); }
                for (auto& kv : ops.a[i].at("faults").o) { Json p = plan; p.ref("ops").a[i].ref("faults").erase(kv.first); c.push_back(p); }
                if (ops.a[i].at("sched").o.size()) { Json p = plan; p.ref("ops").a[i].set("sched", Json::obj()); c.push_back(p); }
                for (auto& kv : ops.a[i].at("cfg").o) if (kv.first != "api" && kv.first != "scanner" && kv.first != "val") { Json p = plan; p.ref("ops").a[i].ref("cfg").erase(kv.first); c.push_back(p); }
            }
            for (size_t d = 0; d < plan.at("docs").a.size(); d++) for (size_t i = 1; i < plan.at("docs").a[d].at("resources").a.size(); i++) { Json p = plan; jsonRemoveAt(p.ref("docs").a[d].ref("resources"), i); c.push_back(p); }
            for (size_t d = 0; d < plan.at("docs").a.size() && c.size() < 900; d++) { Json sub = plan.at("docs").a[d]; std::vector<Json> cc; shrinkBytes(sub, "resources", cc); for (auto& x : cc) { Json p = plan; p.ref("docs").a[d] = x; c.push_back(p); } }
        }
        return c;
    }
    static void shrinkBytes(const Json& holder, const char* key, std::vector<Json>& c) {
        for (size_t ri = 0; ri < holder.at(key).a.size(); ri++) {
            const Json& rj = holder.at(key).a[ri]; if (rj.has("pad")) { Json p = holder; p.ref(key).a[ri].erase("pad"); c.push_back(p); }
            std::string b = bytesDec(rj.gets("bytes")); if (b.size() < 2) continue;
            for (size_t chunk = b.size() / 2; chunk >= 1; chunk /= 2) { for (size_t pos = 0; pos + chunk <= b.size() && c.size() < 500; pos += chunk) { Json p = holder; p.ref(key).a[ri].set("bytes", bytesEnc(b.substr(0, pos) + b.substr(pos + chunk))); if (p.ref(key).a[ri].has("pad")) p.ref(key).a[ri].erase("pad"); c.push_back(p); } if (chunk == 1) break; }
        }
    }

private:
    std::string prop; bool inited = false;

    // ================================================================== C18
    Json genC18(uint64_t seed, uint64_t index, const std::string& tier) {
        Rng wr = runRng(seed, index, "workload"), fr = runRng(seed, index, "faults");
        GenOpts go; go.maxDepth = 3; go.maxChildren = 3; go.idAttrs = true; if (wr.chance(1, 25)) go.padBytes = 49152 - (int)wr.below(300);
        bool schemaWorld = wr.chance(1, 6);      // an instance of generated schemas (pattern facets: the regular-expression engine allocates from the parser's manager too)
        World w = schemaWorld ? makeSchemaWorld(wr) : makeWorld(wr, go);
        if (fr.chance(1, 3)) { int n = 1 + fr.small(2); for (int i = 0; i < n; i++) { Resource& r = w.res[fr.below(w.res.size())]; mutateBytes(fr, r.core); if (r.padAt > r.core.size()) r.padAt = r.core.size(); r.expand(); } }
        ParseCfg cfg = ParseCfg::random(wr); cfg.lowWaterMark = -1; cfg.positions = false; if (cfg.scanner == 3) cfg.schema = true;
        if (schemaWorld) { cfg.schema = true; cfg.ns = true; if (cfg.scanner == 1 || cfg.scanner == 2) cfg.scanner = wr.coin() ? 0 : 3; if (cfg.val == 0 && !wr.chance(1, 4)) cfg.val = 1 + (int)wr.below(2); }      // (a quarter of the non-validating configurations stay: schema processing without validation)
        Json plan = Json::obj(); plan.set("mode", "C18"); if (schemaWorld) plan.set("schema_world", true); plan.set("cfg", cfg.toJson()); plan.set("resources", worldToJson(w));
        plan.set("resolver", 1 + (int)wr.below(2)); plan.set("nest", 1 + (int)wr.below(3)); plan.set("dom_heap_args", wr.chance(1, 3)); plan.set("second_cycle", wr.chance(1, 4));
        plan.set("max_k", tier == "quick" ? 60 : 400);
        return plan;
    }
    struct Ending { std::string kind; int64_t a = 0; int64_t b = 0; std::string res; std::string label() const { return kind + (kind == "full" ? "" : ":" + std::to_string(a) + (kind == "throw" ? "/" + std::to_string(b) : kind == "abandon" ? (b ? "+reset" : "") : "")) + (res.empty() ? "" : "@" + res); } };

    // one ending on a parser that owns ledger M; returns "" or a violation class; the parser is destroyed before M is judged
    std::string runEnding(const Ending& e, const ParseCfg& cfg, const std::vector<Resource>& res, int resolver, std::string& detail, uint64_t* callbacksOut = nullptr, uint64_t* readsOut = nullptr, uint64_t* stepsOut = nullptr) {
        SimMemoryManager M("parser");
        ParseEnv env; env.res = &res; env.resolver = resolver; env.sourceKind = "custom";
        if (e.kind == "throw") { env.handlerThrowAt = e.a; env.handlerFlavour = (int)e.b; }
        else if (e.kind == "abandon") { env.progressiveSteps = e.a; env.progressiveReset = e.b != 0; }
        else if (e.kind == "stream_throw") { StreamFaults sf; sf.throwAtRead = e.a; env.sfaults[e.res] = sf; }
        else if (e.kind == "truncate") { StreamFaults sf; sf.truncateAt = e.a; env.sfaults[e.res] = sf; }
        ParseResult pr; std::string adoptedDump; bool fired = false;
        {
            ParserBox* box = new ParserBox(cfg.api, &M);
            box->configure(cfg);
            if (e.kind == "countsteps") { env.progressiveSteps = 1 << 30; }
            bool adoptedNothing = false; if (e.kind == "adopt_nothing" && box->dom()) { DOMDocument* none = box->dom()->adoptDocument(); if (none) none->release(); adoptedNothing = true; }      // the application asks for the document of a parser that has none (yet): null, and no effect on later parses
            uint64_t t0 = g_run.ticks; (void)t0;
            pr = box->parse(env);
            if (e.kind == "reuse") for (int64_t i = 1; i < e.a; i++) pr = box->parse(env);
            fired = adoptedNothing || (e.kind == "throw" && box->rec().threw) || (e.kind == "abandon" && pr.abandoned) || e.kind == "stream_throw" || e.kind == "truncate";
            if (callbacksOut) *callbacksOut = pr.callbacks;
            if (e.kind == "adopt" && box->dom() && pr.exception.empty()) {
                DOMDocument* doc = box->dom()->adoptDocument();
                if (doc) {
                    std::string d1 = dumpDom(doc);
                    if (e.a == 0) { delete box; box = nullptr; std::string d2 = dumpDom(doc); if (d1 != d2) { detail = "adopted document changed when its parser was destroyed"; doc->release(); return "adopted-doc-changed"; } doc->release(); }
                    else { doc->release(); }
                }
                fired = true;
            }
            delete box;
        }
        if (fired) injected++;
        if (!documentedException(pr.exception)) { detail = "ending " + e.label() + ": undocumented exception type " + pr.exception; return "foreign-exception"; }
        if (!M.viol.empty()) { detail = "ending " + e.label() + ": " + M.viol[0].kind + " on the parser's manager (block #" + std::to_string(M.viol[0].allocNo) + ", " + std::to_string(M.viol[0].size) + " bytes)"; return M.viol[0].kind + ":" + e.kind; }
        if (pr.exception == "OutOfMemory") return "";
        if (M.outstanding() != 0) { detail = "ending " + e.label() + " (parse ended with '" + (pr.exception.empty() ? std::string(pr.abandoned ? "abandoned" : pr.fatals ? "fatal error" : "success") : pr.exception) + "'): " + std::to_string(M.outstanding()) + " blocks of the parser's manager still outstanding after the parser was destroyed: " + M.outstandingSummary(); std::string chain; std::string site = M.leakSite(&chain); detail += " oldest allocated in: " + chain; M.releaseAll(); return "leak:" + site; }
        return "";
    }

    void execC18(const Json& plan, Outcome& o) {
        std::vector<Resource> res = resourcesFromJson(plan.at("resources")); ParseCfg cfg = ParseCfg::fromJson(plan.at("cfg"));
        int resolver = (int)plan.geti("resolver", 1); int nest = (int)plan.geti("nest", 1); int64_t maxK = plan.geti("max_k", 60);
        g_run.reset(200000000ull); injected = 0; if (plan.getb("schema_world")) g_run.probe("schema_world");
        std::string firstCycleDump;
        for (int cycle = 0; cycle < (plan.getb("second_cycle") ? 2 : 1); cycle++) {
            SimMemoryManager* G = new SimMemoryManager("global");
            if (plan.getb("dom_heap_args")) XMLPlatformUtils::Initialize(0x4000 >> cycle, 0x20000, 0x1000, XMLUni::fgXercescDefaultLocale, 0, 0, G);
            else XMLPlatformUtils::Initialize(XMLUni::fgXercescDefaultLocale, 0, 0, G);
            for (int i = 1; i < nest; i++) XMLPlatformUtils::Initialize();      // nested: must be a counted no-op
            std::string cls, detail; SimFileMgr* fmKeep = nullptr; SimNetAccessor* naKeep = nullptr;
            {
                SimFileMgr* fm = new SimFileMgr(); SimNetAccessor* na = new SimNetAccessor(); ParseEnv e0; installFiles(fm, res, e0); fmKeep = fm; naKeep = na;
                WorldInstall wi(fm, na);
                // dry run: how many callbacks, progressive steps and reads does the natural parse have?
                uint64_t nCb = 0; Ending full; full.kind = "full";
                cls = runEnding(full, cfg, res, resolver, detail, &nCb);
                if (cycle == 0 || cls.empty()) {
                    // reference dump for the re-initialisation clause
                    ParseEnv env; env.res = &res; env.resolver = resolver; ParserBox rb(cfg.api); rb.configure(cfg); ParseResult rr = rb.parse(env);
                    if (cycle == 0) firstCycleDump = rr.dump + "|" + rr.exception; else if (cls.empty() && firstCycleDump != rr.dump + "|" + rr.exception) { cls = "reinit-differs"; std::string d; firstDiffLine(firstCycleDump, rr.dump + "|" + rr.exception, d); detail = "after Terminate + Initialize the same parse gives a different result: " + d; }
                }
                if (cls.empty() && cycle == 0) {
                    std::vector<Ending> endings;
                    int64_t step = nCb > (uint64_t)maxK ? (int64_t)(nCb / (uint64_t)maxK) + 1 : 1;
                    for (int64_t k = 1; k <= (int64_t)nCb; k += step) { Ending e; e.kind = "throw"; e.a = k; e.b = (k / step) % 3; endings.push_back(e); }
                    if (cfg.api != API_DOMLS) for (int64_t s = 0; s <= (int64_t)std::min<uint64_t>(nCb + 2, (uint64_t)maxK); s++) { Ending e; e.kind = "abandon"; e.a = s; e.b = s % 2; endings.push_back(e); }
                    for (auto& r : res) for (int64_t n = 1; n <= 3; n++) { Ending e; e.kind = "stream_throw"; e.a = n; e.res = r.name; endings.push_back(e); }
                    for (auto& r : res) { size_t L = r.bytes.size(); for (size_t cut : { L / 3, L / 2, L > 0 ? L - 1 : 0 }) { Ending e; e.kind = "truncate"; e.a = (int64_t)cut; e.res = r.name; endings.push_back(e); } }
                    if (cfg.api == API_DOM) { for (int64_t order = 0; order < 2; order++) { Ending e; e.kind = "adopt"; e.a = order; endings.push_back(e); } }
                    { Ending e; e.kind = "reuse"; e.a = 3; endings.push_back(e); }
                    if (cfg.api == API_DOM) { Ending e; e.kind = "adopt_nothing"; endings.push_back(e); }
                    std::set<int64_t> pick; bool hasPick = plan.has("pick"); if (hasPick) for (auto& x : plan.at("pick").a) pick.insert(x.i64());
                    for (size_t i = 0; i < endings.size() && cls.empty(); i++) {
                        if (hasPick && !pick.count((int64_t)i)) continue;
                        cls = runEnding(endings[i], cfg, res, resolver, detail);
                        if (!cls.empty()) detail += " [ending index " + std::to_string(i) + " of " + std::to_string(endings.size()) + "]";
                        g_run.probes["ending:" + endings[i].kind]++;
                    }
                    // other owners of a manager: a document created through the API, a transcoder
                    if (cls.empty()) {
                        SimMemoryManager M2("doc");
                        { static const XMLCh ls[] = { 'L', 'S', 0 }; static const XMLCh rn[] = { 'r', 0 }; DOMImplementation* impl = DOMImplementationRegistry::getDOMImplementation(ls);
                          DOMDocument* d = impl->createDocument(0, rn, 0, &M2); for (int i = 0; i < 20; i++) { DOMElement* el = d->createElement(rn); el->setAttribute(rn, rn); d->getDocumentElement()->appendChild(el); el->appendChild(d->createTextNode(rn)); }
                          DOMNode* c = d->getDocumentElement()->getFirstChild(); d->getDocumentElement()->removeChild(c); c->release(); d->release(); }
                        if (!M2.viol.empty()) { cls = M2.viol[0].kind + ":document"; detail = "DOM document created with its own manager"; }
                        else if (M2.outstanding()) { cls = "leak:document"; detail = std::to_string(M2.outstanding()) + " blocks outstanding after DOMDocument::release(): " + M2.outstandingSummary(); M2.releaseAll(); }
                        SimMemoryManager M3("transcoder");
                        { XMLTransService::Codes rc; XMLTranscoder* t = XMLPlatformUtils::fgTransService->makeNewTranscoderFor(res[0].enc.find("fallback") == std::string::npos ? res[0].enc.c_str() : "UTF-8", rc, 4096, &M3);
                          if (t) { XMLCh out[512]; unsigned char sizes[512]; XMLSize_t eaten = 0; try { t->transcodeFrom((const XMLByte*)res[0].bytes.data(), std::min<size_t>(res[0].bytes.size(), 256), out, 512, eaten, sizes); } catch (const XMLException&) {} delete t; } }
                        if (cls.empty() && !M3.viol.empty()) { cls = M3.viol[0].kind + ":transcoder"; detail = "transcoder created with its own manager"; }
                        else if (cls.empty() && M3.outstanding()) { cls = "leak:transcoder"; detail = std::to_string(M3.outstanding()) + " blocks outstanding after the transcoder was deleted"; M3.releaseAll(); }
                    }
                }
            }
            delete fmKeep; delete naKeep;
            for (int i = 0; i < nest; i++) XMLPlatformUtils::Terminate();
            if (cls.empty()) {
                if (!G->viol.empty()) { cls = G->viol[0].kind + ":global"; detail = G->viol[0].kind + " on the global manager"; }
                else if (G->outstanding() != 0) { std::string chain; cls = "leak:global-after-terminate:" + G->leakSite(&chain); detail = std::to_string(G->outstanding()) + " blocks of the global manager outstanding after the last Terminate (nesting " + std::to_string(nest) + "): " + G->outstandingSummary() + " oldest allocated in: " + chain; }
            }
            G->releaseAll(); delete G;
            g_run.probe("init_terminate_cycle");
            if (!cls.empty()) { o.violated = true; o.cls = cls; o.detail = detail + " api=" + kApiNames[cfg.api] + " scanner=" + kScannerNames[cfg.scanner]; break; }
        }
        o.nontrivial = injected > 0; g_run.probes["endings_fired"] += injected;
    }
    uint64_t injected = 0;

    // ================================================================== C15
    Json genC15(uint64_t seed, uint64_t index, const std::string& tier) {
        Rng wr = runRng(seed, index, "workload"), cr = runRng(seed, index, "chunks"), fr = runRng(seed, index, "faults");
        Json plan = Json::obj(); plan.set("mode", "C15");
        int api = (int)wr.below(4); plan.set("api", api);
        int nDocs = wr.range(2, 5); Json docs = Json::arr(); std::vector<std::vector<std::string>> names;
        GenOpts go; go.maxDepth = 3; go.maxChildren = 3; go.idAttrs = true;
        std::vector<std::u32string> shared;
        for (int d = 0; d < nDocs; d++) {
            GenOpts g = go; g.presetNames = shared; Rng dr = wr.sub(("doc" + std::to_string(d)).c_str());
            // parses that are aborted in the middle of a start tag leave the most scanner state behind: a fifth of the documents
            // carries duplicated attributes, another tenth is cut off inside a start tag (below)
            Rng ar = dr.sub("abort"); g.dupAttr = ar.chance(1, 5); bool cutInTag = !g.dupAttr && ar.chance(1, 8);
            WorldGen gen(dr.sub("world"), g); World w = gen.make();
            if (gen.fallback) { g.forceUtf8 = true; WorldGen gen2(dr.sub("world-utf8"), g); w = gen2.make(); if (shared.empty()) shared = gen2.names(); } else if (shared.empty()) shared = gen.names();
            if (fr.chance(1, 4)) { Resource& r = w.res[fr.below(w.res.size())]; mutateBytes(fr, r.core); if (r.padAt > r.core.size()) r.padAt = r.core.size(); r.expand(); }
            if (cutInTag) { Resource& r = w.res[0]; std::vector<const Span*> tags; for (auto& s : r.spans) if ((s.kind == "stag" || s.kind == "emptytag") && s.e > s.b + 6 && s.e <= r.core.size()) tags.push_back(&s);
                if (!tags.empty()) { const Span* s = tags[ar.below(tags.size())]; size_t cut = s->b + 3 + ar.below(s->e - s->b - 3); r.core.resize(cut); if (r.padAt > r.core.size()) r.padAt = r.core.size(); r.pad2Count = 0; r.expand(); } }
            Json dj = Json::obj(); dj.set("resources", worldToJson(w)); docs.push(dj);
            std::vector<std::string> nn; for (auto& r : w.res) nn.push_back(r.name); names.push_back(nn);
        }
        plan.set("docs", docs);
        int nOps = tier == "quick" ? wr.range(3, 10) : wr.range(3, 40); Json ops = Json::arr();
        ParseCfg base = ParseCfg::random(wr); base.api = api;
        for (int i = 0; i < nOps; i++) {
            Json op = Json::obj(); op.set("op", "parse"); int d = (int)wr.below((uint64_t)nDocs); op.set("doc", d);
            ParseCfg c = wr.chance(1, 2) ? base : ParseCfg::random(wr); c.api = api; c.positions = true; c.cacheGrammar = false; c.useCachedGrammar = false; c.lowWaterMark = -1; if (c.scanner == 3) c.schema = true;
            if (wr.chance(1, 3)) base = c;
            op.set("cfg", c.toJson()); op.set("resolver", 1 + (int)wr.below(2));
            static const char* kinds[] = { "custom", "custom", "membuf", "file" }; op.set("source", kinds[cr.below(4)]);
            Json sched = Json::obj(); if (cr.chance(1, 3)) for (auto& n : names[(size_t)d]) sched.set(n, genSchedule(cr, 4096).toJson()); op.set("sched", sched);
            Json faults = Json::obj();
            if (fr.chance(1, 2)) {
                unsigned k = (unsigned)fr.below(6);
                if (k == 0) { Json h = Json::obj(); h.set("at", (long long)(1 + fr.below(30))); h.set("flavour", (int)fr.below(3)); op.set("handler_throw", h); }
                else if (k == 1 && api != API_DOMLS) { Json p = Json::obj(); p.set("steps", (long long)fr.below(20)); p.set("reset", fr.coin()); op.set("progressive", p); }
                else if (k == 2) { StreamFaults sf; sf.throwAtRead = 1 + (int64_t)fr.below(3); faults.set(names[(size_t)d][fr.below(names[(size_t)d].size())], sf.toJson()); }
                else if (k == 3) { StreamFaults sf; sf.truncateAt = (int64_t)fr.below(400); faults.set(names[(size_t)d][fr.below(names[(size_t)d].size())], sf.toJson()); }
                else if (k == 4) op.set("resolver_throws", true);
                else if (names[(size_t)d].size() > 1) op.set("resolver_null_for", names[(size_t)d][1 + fr.below(names[(size_t)d].size() - 1)]);
            }
            op.set("faults", faults);
            if (api == API_DOM && wr.chance(1, 4)) op.set("adopt", true);
            if ((api == API_DOM || api == API_DOMLS) && wr.chance(1, 6)) op.set("reset_doc_pool_before", true);
            ops.push(op);
        }
        plan.set("ops", ops);
        return plan;
    }

    void execC15(const Json& plan, Outcome& o) {
        int api = (int)plan.geti("api", 1);
        std::vector<DocWorld> docs; for (auto& dj : plan.at("docs").a) { DocWorld d; d.res = resourcesFromJson(dj.at("resources")); docs.push_back(d); }
        uint64_t total = 0; for (auto& d : docs) for (auto& r : d.res) total += r.bytes.size();
        g_run.reset((400000 + 400 * total) * (plan.at("ops").a.size() + 1) * 2);
        if (docs.empty()) return;
        struct Adopted { DOMDocument* doc; std::string dump; int op; }; std::vector<Adopted> adopted;
        bool faultedBefore = false; int opIndex = 0;
        // one simulated world for the whole history: it must outlive the parser, which may keep a stream of an
        // abandoned parse open until its next reset
        SimFileMgr* fm = new SimFileMgr(); SimNetAccessor* na = new SimNetAccessor();
        {
        WorldInstall wi(fm, na);
        try {
            ParserBox P(api);
            for (auto& op : plan.at("ops").a) {
                opIndex++;
                size_t d = (size_t)op.geti("doc") % docs.size(); ParseCfg cfg = ParseCfg::fromJson(op.at("cfg")); cfg.api = api;
                ParseEnv env; env.res = &docs[d].res; fillEnv(op, env);
                bool faulty = op.has("handler_throw") || op.has("progressive") || op.at("faults").o.size() || op.getb("resolver_throws") || !op.gets("resolver_null_for").empty();
                ParseResult got, want; std::string gotAdoptDump;
                installFiles(fm, docs[d].res, env);
                {   // the long-lived parser
                    if (op.getb("reset_doc_pool_before")) { if (P.dom()) P.dom()->resetDocumentPool(); else if (P.ls()) P.ls()->resetDocumentPool(); }
                    P.configure(cfg); got = P.parse(env);
                    if (op.getb("adopt") && P.dom() && got.exception.empty() && !got.abandoned) { DOMDocument* doc = P.dom()->adoptDocument(); if (doc) { adopted.push_back(Adopted{ doc, dumpDom(doc), opIndex }); g_run.probe("adopted"); } }
                }
                {   // a fresh parser performing only this operation
                    ParserBox F(api); F.configure(cfg); want = F.parse(env);
                }
                if (faultedBefore) { o.nontrivial = true; g_run.probe("parse_after_faulted_op"); }
                if (got.abandoned || !got.exception.empty() || got.fatals) faultedBefore = true;
                if (faulty) g_run.probe("faulted_op");
                if (got.dump.find("already specified") != std::string::npos) g_run.probe("aborted_by_duplicate_attribute");
                if (got.dump != want.dump || got.exception != want.exception || got.abandoned != want.abandoned) {
                    o.violated = true; std::string dd; std::string tok = got.dump == want.dump ? std::string("exception") : firstDiffLine(want.dump, got.dump, dd);
                    o.cls = "history-dependence:" + tok; o.detail = "operation " + std::to_string(opIndex) + " of " + std::to_string(plan.at("ops").a.size()) + " on a reused " + kApiNames[api] + " differs from a fresh parser: " + dd + " exception fresh=<" + want.exception + "> reused=<" + got.exception + "> scanner=" + kScannerNames[cfg.scanner];
                    break;
                }
                if (!documentedException(got.exception)) { o.violated = true; o.cls = "foreign-exception"; o.detail = got.exception; break; }
            }
            // adopted documents must be intact after everything the parser did later (and after it is destroyed: see below)
            if (!o.violated) for (auto& a : adopted) { std::string now = dumpDom(a.doc); if (now != a.dump) { o.violated = true; std::string dd; firstDiffLine(a.dump, now, dd); o.cls = "adopted-doc-changed"; o.detail = "document adopted after operation " + std::to_string(a.op) + " changed while the parser went on: " + dd; break; } }
        } catch (const SimAbort&) { o.violated = true; o.cls = "budget"; o.detail = "step budget exceeded"; }
        }
        delete fm; delete na;
        if (!o.violated) for (auto& a : adopted) { std::string now = dumpDom(a.doc); if (now != a.dump) { o.violated = true; o.cls = "adopted-doc-changed:parser-destroyed"; o.detail = "adopted document changed when the parser was destroyed"; break; } }
        for (auto& a : adopted) a.doc->release();
    }
};

int main(int argc, char** argv) {
    return driverMain(argc, argv, [](const std::string& p) -> Engine* { if (p == "C15" || p == "C18") return new HistEngine(p); return nullptr; });
}
