// One PRNG family for everything: xoshiro256** seeded through splitmix64; labelled sub-streams.
#pragma once
#include <cstdint>
#include <string>
#include <vector>

namespace sim {

inline uint64_t splitmix64(uint64_t& x) {
    uint64_t z = (x += 0x9E3779B97F4A7C15ull);
    z = (z ^ (z >> 30)) * 0xBF58476D1CE4E5B9ull;
    z = (z ^ (z >> 27)) * 0x94D049BB133111EBull;
    return z ^ (z >> 31);
}
inline uint64_t fnv1a(const void* p, size_t n, uint64_t h = 1469598103934665603ull) {
    const unsigned char* c = (const unsigned char*)p;
    for (size_t i = 0; i < n; i++) { h ^= c[i]; h *= 1099511628211ull; }
    return h;
}
inline uint64_t fnv1a(const std::string& s, uint64_t h = 1469598103934665603ull) { return fnv1a(s.data(), s.size(), h); }
// (const char*, seed): without this overload such a call would select (const void*, size_t n = seed)
inline uint64_t fnv1a(const char* s, uint64_t h) { return fnv1a((const void*)s, __builtin_strlen(s), h); }

struct Rng {
    uint64_t s[4];
    explicit Rng(uint64_t seed = 0) { reseed(seed); }
    void reseed(uint64_t seed) { uint64_t x = seed; for (int i = 0; i < 4; i++) s[i] = splitmix64(x); }
    static uint64_t rotl(uint64_t x, int k) { return (x << k) | (x >> (64 - k)); }
    uint64_t next() {
        uint64_t r = rotl(s[1] * 5, 7) * 9, t = s[1] << 17;
        s[2] ^= s[0]; s[3] ^= s[1]; s[1] ^= s[2]; s[0] ^= s[3]; s[2] ^= t; s[3] = rotl(s[3], 45);
        return r;
    }
    // uniform in [0,n)
    uint64_t below(uint64_t n) { return n ? next() % n : 0; }
    int range(int lo, int hi) { return lo + (int)below((uint64_t)(hi - lo + 1)); } // inclusive
    bool chance(unsigned num, unsigned den) { return below(den) < num; }
    bool coin() { return next() & 1; }
    double unit() { return (next() >> 11) * (1.0 / 9007199254740992.0); }
    template <class T> const T& pick(const std::vector<T>& v) { return v[below(v.size())]; }
    template <class T, size_t N> const T& pick(const T (&v)[N]) { return v[below(N)]; }
    // geometric-ish small number: mostly small, sometimes large
    int small(int cap) { int n = 0; while (n < cap && chance(1, 2)) n++; return n; }
    Rng sub(const char* label) const { uint64_t h = fnv1a(label, __builtin_strlen(label)); return Rng(s[0] ^ rotl(s[1], 13) ^ h); }
};

inline Rng runRng(uint64_t seed, uint64_t runIndex, const char* label) {
    uint64_t x = seed * 0x9E3779B97F4A7C15ull + runIndex;
    uint64_t a = splitmix64(x);
    return Rng(a ^ fnv1a(label, __builtin_strlen(label)));
}

} // namespace sim
