// Seeded chunk-schedule families (DESIGN 5.C04)
#pragma once
#include "seams.hpp"
#include "worldgen.hpp"

namespace sim {

// `lead` bytes are delivered in large reads first (the reader swallows its first 48K before looking at anything,
// so fine-grained reads there only cost time); the family pattern applies to what follows.
inline Schedule genSchedule(Rng& r, size_t len, size_t lead = 0) {
    Schedule s; unsigned f = (unsigned)r.below(100);
    if (lead > 0 && f >= 12 + 28) lead = 0;          // list-based families place their own sizes; keep them as they are
    if (lead > 0) { size_t pos = 0; while (pos < lead) { uint32_t n = (uint32_t)std::min<size_t>(lead - pos, 40000); s.sizes.push_back(n); pos += n; } }
    if (f < 12) { s.rest = 1; }                                                    // one byte at a time
    else if (f < 40) { static const uint32_t ks[] = { 2, 3, 5, 7, 40, 99, 100, 101, 4095, 4096, 16383, 16384, 49151, 49152 }; s.rest = ks[r.below(14)]; }
    else if (f < 65) { size_t pos = 0; while (pos < len && s.sizes.size() < 4000) { uint32_t n = 1; while (n < 65536 && r.chance(2, 3)) n *= 2; n = 1 + (uint32_t)r.below(n); s.sizes.push_back(n); pos += n; } s.rest = 1 + (uint32_t)r.below(64); }
    else if (f < 80) { size_t pos = 0; while (pos < len && s.sizes.size() < 200) { uint32_t n = r.chance(1, 4) ? 1 : 20000 + (uint32_t)r.below(60000); s.sizes.push_back(n); pos += n; } s.rest = 1u << 20; }   // mostly huge, a few 1-byte
    else if (f < 90) { uint32_t first = 1 + (uint32_t)r.below(8); s.sizes.push_back(first); s.rest = 1u << 20; }                                  // tiny first read then everything
    else { s.rest = 1u << 30; }                                                     // one shot
    return s;
}

// read boundaries placed at every byte position inside [b,e): "prefix up to b+1, then single bytes through e, then the rest"
inline Schedule targetedSchedule(Rng& r, size_t b, size_t e) {
    Schedule s; size_t lead = b > 0 ? b : 0;
    if (r.coin()) { // exactly one boundary inside the span
        size_t k = b + 1 + (e > b + 1 ? r.below(e - b - 1 + 1) : 0); if (k > e) k = e;
        if (k > 0) s.sizes.push_back((uint32_t)k);
    } else {
        if (lead > 0) { // arrive at b with big reads, then single bytes across the construct
            size_t pos = 0; while (pos < lead) { uint32_t n = (uint32_t)std::min<size_t>(lead - pos, 40000); s.sizes.push_back(n); pos += n; } }
        for (size_t i = b; i < e && i - b < 64; i++) s.sizes.push_back(1);
    }
    s.rest = r.chance(1, 3) ? 1 + (uint32_t)r.below(16) : 1u << 20;
    return s;
}

// A world whose characters all fit its encoding: if the first attempt had to fall back (a character the chosen
// code page cannot represent), the world is generated again in UTF-8 so that declaration and bytes always agree.
inline World makeWorld(const Rng& wr, const GenOpts& go) {
    WorldGen g(wr.sub("world"), go); World w = g.make();
    if (g.fallback) { GenOpts g2 = go; g2.forceUtf8 = true; WorldGen h(wr.sub("world-utf8"), g2); w = h.make(); }
    return w;
}

inline Json worldToJson(const World& w) {
    Json a = Json::arr();
    for (auto& r : w.res) { Json j = Json::obj(); j.set("name", r.name); j.set("role", r.role); j.set("enc", r.enc); j.set("bytes", bytesEnc(r.core));
        if (r.padCount || !r.padExtra.empty() || r.pad2Count) { Json p = Json::obj(); p.set("at", (long long)r.padAt); p.set("unit", bytesEnc(r.padUnit)); p.set("count", (long long)r.padCount); p.set("extra", bytesEnc(r.padExtra)); if (r.pad2Count) { p.set("at2", (long long)r.pad2At); p.set("count2", (long long)r.pad2Count); } j.set("pad", p); }
        a.push(j); }
    return a;
}
inline std::vector<Resource> resourcesFromJson(const Json& a) {
    std::vector<Resource> v; for (auto& j : a.a) { Resource r; r.name = j.gets("name"); r.role = j.gets("role"); r.enc = j.gets("enc"); r.core = bytesDec(j.gets("bytes"));
        if (j.has("pad")) { const Json& p = j.at("pad"); r.padAt = std::min((size_t)p.geti("at"), r.core.size()); r.padUnit = bytesDec(p.gets("unit")); r.padCount = (size_t)p.geti("count"); r.padExtra = bytesDec(p.gets("extra")); r.pad2At = (size_t)p.geti("at2"); r.pad2Count = (size_t)p.geti("count2"); }
        r.expand(); v.push_back(r); } return v;
}

} // namespace sim
