// xsmodeldump: a canonical text listing of an XSModel (schema component model) through the public XS* API: namespaces,
// element / attribute / type / attribute-group / model-group / notation components with their properties, particles,
// wildcards, facets, identity constraints and annotations. Order-insensitive where the API's order is a hash order
// (top-level maps are sorted by {namespace}name). Used by poolsim (C16) to compare an original with a restored pool.
#pragma once
#include <xercesc/framework/psvi/XSModel.hpp>
#include <xercesc/framework/psvi/XSNamedMap.hpp>
#include <xercesc/framework/psvi/XSElementDeclaration.hpp>
#include <xercesc/framework/psvi/XSAttributeDeclaration.hpp>
#include <xercesc/framework/psvi/XSAttributeUse.hpp>
#include <xercesc/framework/psvi/XSAttributeGroupDefinition.hpp>
#include <xercesc/framework/psvi/XSComplexTypeDefinition.hpp>
#include <xercesc/framework/psvi/XSSimpleTypeDefinition.hpp>
#include <xercesc/framework/psvi/XSModelGroup.hpp>
#include <xercesc/framework/psvi/XSModelGroupDefinition.hpp>
#include <xercesc/framework/psvi/XSParticle.hpp>
#include <xercesc/framework/psvi/XSWildcard.hpp>
#include <xercesc/framework/psvi/XSNotationDeclaration.hpp>
#include <xercesc/framework/psvi/XSAnnotation.hpp>
#include <xercesc/framework/psvi/XSIDCDefinition.hpp>
#include <xercesc/framework/psvi/XSNamespaceItem.hpp>
#include <xercesc/framework/psvi/XSFacet.hpp>
#include <xercesc/framework/psvi/XSMultiValueFacet.hpp>
#include <algorithm>

namespace sim {

struct XSModelDumper {
    std::string s8(const XMLCh* x) { return x ? pu8(x) : std::string("(null)"); }
    std::string qn(XSObject* o) { if (!o) return "(none)"; return "{" + s8(o->getNamespace()) + "}" + s8(o->getName()); }
    std::string strList(StringList* l, bool sorted = false) { std::vector<std::string> v; if (l) for (XMLSize_t i = 0; i < l->size(); i++) v.push_back(s8(l->elementAt(i))); if (sorted) std::sort(v.begin(), v.end()); std::string r = "["; for (auto& x : v) r += x + "|"; return r + "]"; }
    std::string annotation(XSAnnotation* a) { if (!a) return ""; std::string r = " ann="; int n = 0; for (; a && n < 8; a = a->getNext(), n++) { std::string t = s8(a->getAnnotationString()); r += "<" + std::to_string(t.size()) + ":" + std::to_string(fnv1a(t) % 100000) + ">"; } return r; }
    std::string typeRef(XSTypeDefinition* t, int depth) { if (!t) return "(no type)"; if (!t->getAnonymous() || depth > 5) return qn(t) + (t->getAnonymous() ? "(anon)" : ""); return "anon" + typeBody(t, depth + 1); }
    std::string wildcard(XSWildcard* w) { if (!w) return "(none)"; return "wildcard(constraint=" + std::to_string((int)w->getConstraintType()) + " ns=" + strList(w->getNsConstraintList(), true) + " process=" + std::to_string((int)w->getProcessContents()) + ")"; }
    std::string particle(XSParticle* p, int depth) {
        if (!p) return "(empty)"; std::string r = "P[" + std::to_string((unsigned long)p->getMinOccurs()) + ".." + (p->getMaxOccursUnbounded() ? std::string("*") : std::to_string((unsigned long)p->getMaxOccurs())) + " ";
        switch (p->getTermType()) {
        case XSParticle::TERM_ELEMENT: { XSElementDeclaration* e = p->getElementTerm(); r += "elem " + qn(e) + (e && e->getScope() != XSConstants::SCOPE_GLOBAL && depth < 6 ? ":" + elemBody(e, depth + 1) : ""); break; }
        case XSParticle::TERM_MODELGROUP: { XSModelGroup* g = p->getModelGroupTerm(); r += "group(" + std::to_string(g ? (int)g->getCompositor() : -1) + ")"; if (g) { XSParticleList* l = g->getParticles(); if (l) for (XMLSize_t i = 0; i < l->size(); i++) r += particle(l->elementAt(i), depth + 1); r += annotation(g->getAnnotation()); } break; }
        case XSParticle::TERM_WILDCARD: r += wildcard(p->getWildcardTerm()); break;
        default: r += "empty"; }
        return r + "]";
    }
    std::string simpleBody(XSSimpleTypeDefinition* t, int depth) {
        std::string r = " variety=" + std::to_string((int)t->getVariety()) + " prim=" + qn(t->getPrimitiveType()) + " item=" + (t->getItemType() ? typeRef(t->getItemType(), depth) : "-");
        if (XSSimpleTypeDefinitionList* m = t->getMemberTypes()) { r += " members="; for (XMLSize_t i = 0; i < m->size(); i++) r += typeRef(m->elementAt(i), depth) + ","; }
        r += " facets=" + std::to_string(t->getDefinedFacets()) + "/" + std::to_string(t->getFixedFacets());
        static const XSSimpleTypeDefinition::FACET fs[] = { XSSimpleTypeDefinition::FACET_LENGTH, XSSimpleTypeDefinition::FACET_MINLENGTH, XSSimpleTypeDefinition::FACET_MAXLENGTH, XSSimpleTypeDefinition::FACET_WHITESPACE, XSSimpleTypeDefinition::FACET_MAXINCLUSIVE, XSSimpleTypeDefinition::FACET_MAXEXCLUSIVE, XSSimpleTypeDefinition::FACET_MINEXCLUSIVE, XSSimpleTypeDefinition::FACET_MININCLUSIVE, XSSimpleTypeDefinition::FACET_TOTALDIGITS, XSSimpleTypeDefinition::FACET_FRACTIONDIGITS };
        for (auto f : fs) if (t->isDefinedFacet(f)) r += " f" + std::to_string((int)f) + "=" + s8(t->getLexicalFacetValue(f));
        r += " enum=" + strList(t->getLexicalEnumeration()) + " pattern=" + strList(t->getLexicalPattern());
        r += " ordered=" + std::to_string((int)t->getOrdered()) + " finite=" + std::to_string(t->getFinite()) + " bounded=" + std::to_string(t->getBounded()) + " numeric=" + std::to_string(t->getNumeric());
        if (XSAnnotationList* al = t->getAnnotations()) for (XMLSize_t i = 0; i < al->size(); i++) r += annotation(al->elementAt(i));
        return r;
    }
    std::string attrDecl(XSAttributeDeclaration* a, int depth) { if (!a) return "(none)"; return qn(a) + " type=" + typeRef(a->getTypeDefinition(), depth) + " scope=" + std::to_string((int)a->getScope()) + " constraint=" + std::to_string((int)a->getConstraintType()) + ":" + s8(a->getConstraintValue()) + " required=" + std::to_string(a->getRequired()) + annotation(a->getAnnotation()); }
    std::string typeBody(XSTypeDefinition* t, int depth) {
        std::string r = "{cat=" + std::to_string((int)t->getTypeCategory()) + " base=" + (t->getBaseType() == t ? std::string("(self)") : qn(t->getBaseType())) + " final=" + std::to_string((int)t->getFinal());
        if (t->getTypeCategory() == XSTypeDefinition::SIMPLE_TYPE) r += simpleBody((XSSimpleTypeDefinition*)t, depth);
        else { XSComplexTypeDefinition* c = (XSComplexTypeDefinition*)t;
            r += " deriv=" + std::to_string((int)c->getDerivationMethod()) + " abstract=" + std::to_string(c->getAbstract()) + " prohibited=" + std::to_string((int)c->getProhibitedSubstitutions()) + " content=" + std::to_string((int)c->getContentType());
            if (c->getSimpleType()) r += " simple=" + typeRef(c->getSimpleType(), depth);
            if (XSAttributeUseList* ul = c->getAttributeUses()) { std::vector<std::string> us; for (XMLSize_t i = 0; i < ul->size(); i++) { XSAttributeUse* u = ul->elementAt(i); us.push_back("use(" + attrDecl(u->getAttrDeclaration(), depth) + " req=" + std::to_string(u->getRequired()) + " c=" + std::to_string((int)u->getConstraintType()) + ":" + s8(u->getConstraintValue()) + ")"); } std::sort(us.begin(), us.end()); for (auto& u : us) r += " " + u; }
            r += " attrWildcard=" + wildcard(c->getAttributeWildcard());
            if (depth < 6) r += " particle=" + particle(c->getParticle(), depth + 1);
            if (XSAnnotationList* al = c->getAnnotations()) for (XMLSize_t i = 0; i < al->size(); i++) r += annotation(al->elementAt(i));
        }
        return r + "}";
    }
    std::string elemBody(XSElementDeclaration* e, int depth) {
        std::string r = "{type=" + typeRef(e->getTypeDefinition(), depth) + " scope=" + std::to_string((int)e->getScope()) + " constraint=" + std::to_string((int)e->getConstraintType()) + ":" + s8(e->getConstraintValue()) + " nillable=" + std::to_string(e->getNillable()) + " abstract=" + std::to_string(e->getAbstract());
        r += " subst=" + qn(e->getSubstitutionGroupAffiliation()) + " substExcl=" + std::to_string((int)e->getSubstitutionGroupExclusions()) + " disallowed=" + std::to_string((int)e->getDisallowedSubstitutions());
        if (XSNamedMap<XSIDCDefinition>* ics = e->getIdentityConstraints()) { std::vector<std::string> v; for (XMLSize_t i = 0; i < ics->getLength(); i++) { XSIDCDefinition* ic = ics->item(i); v.push_back("idc(" + qn(ic) + " cat=" + std::to_string((int)ic->getCategory()) + " sel=" + s8(ic->getSelectorStr()) + " fields=" + strList(ic->getFieldStrs()) + " refer=" + qn(ic->getRefKey()) + ")"); } std::sort(v.begin(), v.end()); for (auto& x : v) r += " " + x; }
        r += annotation(e->getAnnotation());
        return r + "}";
    }
    std::string dump(XSModel* m) {
        if (!m) return "(no model)\n"; std::string out; out += "namespaces " + strList(m->getNamespaces(), true) + "\n";
        static const XSConstants::COMPONENT_TYPE kinds[] = { XSConstants::ELEMENT_DECLARATION, XSConstants::ATTRIBUTE_DECLARATION, XSConstants::TYPE_DEFINITION, XSConstants::ATTRIBUTE_GROUP_DEFINITION, XSConstants::MODEL_GROUP_DEFINITION, XSConstants::NOTATION_DECLARATION };
        for (auto k : kinds) { XSNamedMap<XSObject>* map = m->getComponents(k); std::vector<std::string> lines; if (map) for (XMLSize_t i = 0; i < map->getLength(); i++) { XSObject* o = map->item(i); if (!o) continue;
                if (o->getNamespace() && XMLString::equals(o->getNamespace(), SchemaSymbols::fgURI_SCHEMAFORSCHEMA)) continue;     // the built-in types are the same on both sides by construction
                std::string l = "kind" + std::to_string((int)k) + " " + qn(o) + " ";
                switch (k) {
                case XSConstants::ELEMENT_DECLARATION: l += elemBody((XSElementDeclaration*)o, 0); break;
                case XSConstants::ATTRIBUTE_DECLARATION: l += attrDecl((XSAttributeDeclaration*)o, 0); break;
                case XSConstants::TYPE_DEFINITION: l += typeBody((XSTypeDefinition*)o, 0); break;
                case XSConstants::ATTRIBUTE_GROUP_DEFINITION: { XSAttributeGroupDefinition* g = (XSAttributeGroupDefinition*)o; std::vector<std::string> us; if (XSAttributeUseList* ul = g->getAttributeUses()) for (XMLSize_t j = 0; j < ul->size(); j++) us.push_back(attrDecl(ul->elementAt(j)->getAttrDeclaration(), 0)); std::sort(us.begin(), us.end()); for (auto& u : us) l += "use(" + u + ") "; l += "wildcard=" + wildcard(g->getAttributeWildcard()) + annotation(g->getAnnotation()); break; }
                case XSConstants::MODEL_GROUP_DEFINITION: { XSModelGroupDefinition* g = (XSModelGroupDefinition*)o; XSModelGroup* mg = g->getModelGroup(); l += "compositor=" + std::to_string(mg ? (int)mg->getCompositor() : -1); if (mg) if (XSParticleList* pl = mg->getParticles()) for (XMLSize_t j = 0; j < pl->size(); j++) l += particle(pl->elementAt(j), 1); l += annotation(g->getAnnotation()); break; }
                default: { XSNotationDeclaration* n = (XSNotationDeclaration*)o; l += "system=" + s8(n->getSystemId()) + " public=" + s8(n->getPublicId()) + annotation(n->getAnnotation()); break; }
                }
                lines.push_back(l); }
            std::sort(lines.begin(), lines.end()); for (auto& l : lines) out += l + "\n"; }
        if (XSAnnotationList* al = m->getAnnotations()) { std::vector<std::string> v; for (XMLSize_t i = 0; i < al->size(); i++) v.push_back(annotation(al->elementAt(i))); std::sort(v.begin(), v.end()); for (auto& x : v) out += "model-annotation" + x + "\n"; }
        return out;
    }
};

} // namespace sim
