// SchemaWorld: a world (worldgen.hpp) whose document is an instance of generated XML Schemas (schemagen.hpp) - the schema documents are
// further resources of the world, named by xsi:schemaLocation / xsi:noNamespaceSchemaLocation hints and xs:import, so that they are read
// through the same simulated streams (read schedules, truncation, I/O errors, byte mutation) as DTD entities are. Brings the schema
// loader (TraverseSchema), the datatype validators and the regular-expression engine (pattern facets) into the C01 / C18 workloads.
#pragma once
#include "worldgen.hpp"
#include "schemagen.hpp"

namespace sim {

inline World makeSchemaWorld(Rng& r) {
    World w; SchemaGen sg(r.sub("schemaworld"));
    std::vector<GenSchema> gs; gs.push_back(sg.make(0, nullptr)); if (r.chance(1, 3)) gs.push_back(sg.make(1, &gs[0]));
    const GenSchema& g = gs.back(); std::string x = sg.instance(g);
    // half of the worlds with a global element of a user-defined simple type: a one-element instance whose value is drawn from the type's
    // accepted and rejected samples alike (facet code, above all pattern facets, with values that do and do not match)
    { std::vector<const SgElem*> simple; for (auto& e : g.elems) if (!e.typeIsComplex && e.type >= (int)g.builtins && !e.abstract_) simple.push_back(&e);
      if (!simple.empty() && r.coin()) { const SgElem& e = *simple[r.below(simple.size())]; const SgSimple& t = g.simples[(size_t)e.type]; std::vector<std::string> vals = t.good; vals.insert(vals.end(), t.bad.begin(), t.bad.end()); if (vals.empty()) vals.push_back("v");
          std::string q = (g.ns.empty() ? std::string() : g.prefix + ":") + e.name;
          x = "<?xml version=\"1.0\"?>\n<" + q + (g.ns.empty() ? std::string() : " xmlns:" + g.prefix + "=\"" + g.ns + "\"") + " xmlns:xsi=\"http://www.w3.org/2001/XMLSchema-instance\">" + SchemaGen::esc(vals[r.below(vals.size())]) + "</" + q + ">\n"; } }
    std::string hint = g.ns.empty() ? " xsi:noNamespaceSchemaLocation=\"" + g.file + "\"" : " xsi:schemaLocation=\"" + g.ns + " " + g.file + "\"";
    if (x.find("chemaLocation=") == std::string::npos) { size_t at = x.find(" xmlns:xsi="); if (at != std::string::npos) x.insert(at, hint); }
    auto add = [&](const std::string& name, const char* role, const std::string& bytes) { Resource res; res.name = name; res.role = role; res.enc = "UTF-8"; res.core = bytes; res.expand(); res.rootEnd = bytes.size(); w.res.push_back(res); };
    add("doc.xml", "doc", x); for (auto& s : gs) add(s.file, "schema", s.text);
    w.usesNS = true; return w;
}

} // namespace sim
