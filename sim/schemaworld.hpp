// SchemaWorld: a world (worldgen.hpp) whose document is an instance of generated XML Schemas (schemagen.hpp) - the schema documents are
// further resources of the world, named by xsi:schemaLocation / xsi:noNamespaceSchemaLocation hints and xs:import, so that they are read
// through the same simulated streams (read schedules, truncation, I/O errors, byte mutation) as DTD entities are. Brings the schema
// loader (TraverseSchema), the datatype validators and the regular-expression engine (pattern facets) into the C01 / C18 workloads.
#pragma once
#include "worldgen.hpp"
#include <cctype>
#include "schemagen.hpp"

namespace sim {

inline World makeSchemaWorld(Rng& r) {
    World w; SchemaGen sg(r.sub("schemaworld"));
    std::vector<GenSchema> gs; gs.push_back(sg.make(0, nullptr)); if (r.chance(1, 3)) gs.push_back(sg.make(1, &gs[0]));
    const GenSchema& g = gs.back(); std::string x = sg.instance(g);
    // half of the worlds with a global element of a user-defined simple type: a one-element instance whose value is drawn from the type's
    // accepted and rejected samples alike (facet code, above all pattern facets, with values that do and do not match)
    { std::vector<const SgElem*> simple; for (auto& e : g.elems) if (!e.typeIsComplex && e.type >= (int)g.builtins && !e.abstract_) simple.push_back(&e);
      if (!simple.empty() && r.coin()) { const SgElem& e = *simple[r.below(simple.size())]; const SgSimple& t = g.simples[(size_t)e.type]; std::vector<std::string> vals = t.good; vals.insert(vals.end(), t.bad.begin(), t.bad.end()); if (vals.empty()) vals.push_back("v");
          std::string q = (g.ns.empty() ? std::string() : g.prefix + ":") + e.name;
          x = "<?xml version=\"1.0\"?>\n<" + q + (g.ns.empty() ? std::string() : " xmlns:" + g.prefix + "=\"" + g.ns + "\"") + " xmlns:xsi=\"http://www.w3.org/2001/XMLSchema-instance\">" + SchemaGen::esc(vals[r.below(vals.size())]) + "</" + q + ">\n"; } }
    std::string hint = g.ns.empty() ? " xsi:noNamespaceSchemaLocation=\"" + g.file + "\"" : " xsi:schemaLocation=\"" + g.ns + " " + g.file + "\"";
    if (x.find("chemaLocation=") == std::string::npos) { size_t at = x.find(" xmlns:xsi="); if (at != std::string::npos) x.insert(at, hint); }
    // a quarter of the worlds: xsi:type on about half of the start tags (whatever the declared type): the xsi:type bookkeeping of scanner and validator, also
    // for elements that are never validated (skipped by a wildcard, or schema processing without validation)
    if (r.chance(1, 4)) { std::string y; bool root = true; for (size_t i = 0; i < x.size(); i++) { y += x[i];
            if (x[i] == '<' && i + 1 < x.size() && (isalpha((unsigned char)x[i + 1]) || x[i + 1] == '_')) { size_t e = i + 1; while (e < x.size() && !isspace((unsigned char)x[e]) && x[e] != '>' && x[e] != '/') e++;
                size_t close = x.find('>', e); bool has = close != std::string::npos && x.substr(e, close - e).find("xsi:type=") != std::string::npos;
                y.append(x, i + 1, e - i - 1); i = e - 1; if (root) { if (x.find("xmlns:xs=") == std::string::npos) y += " xmlns:xs=\"http://www.w3.org/2001/XMLSchema\""; root = false; } if (!has && r.coin()) y += " xsi:type=\"xs:string\""; } }
        x.swap(y); }
    // an eighth of the worlds: the instance sits 30-70 levels deep inside plain elements that no grammar knows (scanner state that is sized per nesting depth)
    if (r.chance(1, 8)) { size_t decl = x.find("?>"); size_t at = decl == std::string::npos ? 0 : decl + 2; int n = r.range(30, 70); std::string open, close; for (int i = 0; i < n; i++) { open += "<n" + std::to_string(i % 7) + ">"; close = "</n" + std::to_string(i % 7) + ">" + close; }
        size_t end = x.find_last_of('>'); if (end != std::string::npos) { x.insert(end + 1, close); x.insert(at, "\n" + open); } }
    auto add = [&](const std::string& name, const char* role, const std::string& bytes) { Resource res; res.name = name; res.role = role; res.enc = "UTF-8"; res.core = bytes; res.expand(); res.rootEnd = bytes.size(); w.res.push_back(res); };
    add("doc.xml", "doc", x); for (auto& s : gs) add(s.file, "schema", s.text);
    w.usesNS = true; return w;
}

} // namespace sim
