// Simulation kernel: run context (event log, ticks, fault/probe counters), Engine interface, driver.
#pragma once
#include "json.hpp"
#include "rng.hpp"
#include <map>
#include <set>
#include <string>
#include <vector>
#include <functional>

namespace sim {

struct SimAbort { const char* why; };   // thrown from a seam when the step budget is exhausted

// Per-run context. Everything the seams record goes here; nothing in here reads a clock or the PRNG.
struct Run {
    uint64_t ticks = 0;
    uint64_t budget = ~0ull;
    uint64_t logHash = 1469598103934665603ull;
    uint64_t logCount = 0;
    bool budgetHit = false;
    bool trace = false;
    std::string traceText;
    std::map<std::string, uint64_t> faults;   // fault kind -> times it actually fired
    std::map<std::string, uint64_t> probes;   // reach probes
    void reset(uint64_t b = ~0ull) { ticks = 0; budget = b; logHash = 1469598103934665603ull; logCount = 0; budgetHit = false; traceText.clear(); faults.clear(); probes.clear(); }
    // threadsim: worker threads must not touch this shared record (it would be a harness-side data race); they set quiet
    static bool& quiet() { static thread_local bool q = false; return q; }
    inline void tick() { if (quiet()) return; if (++ticks > budget) { budgetHit = true; throw SimAbort{ "step budget" }; } }
    void ev(const char* kind, uint64_t a = 0, uint64_t b = 0) {
        if (quiet()) return;
        logHash = fnv1a(kind, __builtin_strlen(kind), logHash);
        uint64_t ab[2] = { a, b }; logHash = fnv1a(ab, sizeof ab, logHash); logCount++;
        if (trace) { char buf[160]; snprintf(buf, sizeof buf, "%s %llu %llu\n", kind, (unsigned long long)a, (unsigned long long)b); traceText += buf; }
    }
    void evs(const char* kind, const std::string& s) {
        if (quiet()) return;
        logHash = fnv1a(kind, __builtin_strlen(kind), logHash); logHash = fnv1a(s, logHash); logCount++;
        if (trace) { traceText += kind; traceText += ' '; traceText += s; traceText += '\n'; }
    }
    void fault(const char* k) { if (quiet()) return; faults[k]++; }
    void probe(const char* k) { if (quiet()) return; probes[k]++; }
};
extern Run g_run;

struct Outcome {
    bool violated = false;
    std::string cls;        // stable short class; unit of shrinking and known-finding matching
    std::string detail;     // human readable
    bool nontrivial = false;
    uint64_t fingerprint = 0;   // identifies the *case* (plan); distinctness measure
    std::vector<std::string> known; // known findings observed (ids) — filled by driver
};

struct Engine {
    virtual ~Engine() {}
    virtual std::string property() const = 0;
    virtual std::string level() const { return "exploration"; }
    virtual std::string rule() const = 0;
    virtual Json describe() const { return Json::obj(); }          // components real/stubbed, assumptions...
    virtual void globalInit() {}                                     // once per process (e.g. XMLPlatformUtils::Initialize)
    // number of runs for the tier (exhaustive enumerations may return a computed size)
    virtual uint64_t defaultRuns(const std::string& tier) const = 0;
    virtual Json generate(uint64_t seed, uint64_t index, const std::string& tier) = 0;
    virtual Outcome execute(const Json& plan) = 0;                   // must reset g_run itself
    virtual std::vector<Json> shrinkCandidates(const Json& plan) { (void)plan; return {}; }
    virtual Json sampleView(const Json& plan) { return plan; }       // abbreviated plan for evidence
    // false for engines whose detector de-duplicates reports per process (TSan): an in-process re-execution then
    // compares the event-log hash only, and violations are gated / shrunk in fresh child processes
    virtual bool inProcessReexecutionReproducesClass() const { return true; }
    virtual bool runEachInForkedChild() const { return false; }
};

// true iff (class, detail) matches an entry of known_findings.json for the property being run (engines that must
// go on after a known finding and stop at an unknown one use this)
bool knownFindingMatches(const std::string& cls, const std::string& detail, std::string* idOut = nullptr);

int driverMain(int argc, char** argv, std::function<Engine*(const std::string& prop)> factory);

// helpers for engines
void jsonRemoveAt(Json& arr, size_t i);

} // namespace sim
