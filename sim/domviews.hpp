// domviews: the live views of C14 - real xerces-c view objects paired with their reference models (sim/refviews.hpp).
// Included by engines/domsim.cpp after DomWorld. Every view operation is executed on both sides and compared; after every
// step of a run (tree mutation or view operation) the boundary points of all ranges and the current nodes of all walkers
// are compared, node lists are compared in full when the plan asks for it.
#pragma once
#include "refviews.hpp"

struct SimFilter : public DOMNodeFilter {
    DomWorld* w; int kind;
    SimFilter(DomWorld* ww, int k) : w(ww), kind(k) {}
    FilterAction acceptNode(const DOMNode* n) const override {
        auto it = w->byX.find(n); if (it == w->byX.end()) return FILTER_ACCEPT;
        int r = refdom::FilterSpec::userFilter(kind, w->slots[it->second].r->id); g_run.probe("filter_consulted");
        return r == refdom::F_ACCEPT ? FILTER_ACCEPT : r == refdom::F_REJECT ? FILTER_REJECT : FILTER_SKIP;
    }
};

struct Views {
    struct ItV { refdom::RefIterator* m = nullptr; DOMNodeIterator* x = nullptr; SimFilter* f = nullptr; };
    struct TwV { refdom::RefWalker m; DOMTreeWalker* x = nullptr; SimFilter* f = nullptr; };
    struct LiV { refdom::RefTagList m; DOMNodeList* x = nullptr; };
    struct RgV { refdom::RefRange* m = nullptr; DOMRange* x = nullptr; Node* doc = nullptr; };
    struct XrV { DOMXPathResult* x = nullptr; std::vector<Node*> items; int type = 0; std::string expr; bool nestable = false; const char* firstStep = "*"; Node* ctx = nullptr; };      // an XPath result held across mutations (xerces-c gives snapshots / single nodes only)
    DomWorld& w; std::vector<ItV> its; std::vector<TwV> tws; std::vector<LiV> lis; std::vector<RgV> rgs; std::vector<XrV> xrs;
    explicit Views(DomWorld& ww) : w(ww) {}
    ~Views() { for (auto& i : its) { delete i.m; delete i.f; } for (auto& t : tws) delete t.f; for (auto& r : rgs) delete r.m; for (auto& x : xrs) if (x.x) x.x->release(); }

    // ---- XPath: the subset xerces-c evaluates on a DOM (that of XML Schema selectors: [.//] step (/ step)*, unions; element results)
    struct XpPath { bool fromRoot; bool desc; std::vector<const char*> steps; };
    struct XpExpr { const char* text; std::vector<XpPath> alts; bool invalid; };
    static const std::vector<XpExpr>& xpTable() {
        static const std::vector<XpExpr> t = {
            { "a", { { false, false, { "a" } } }, false }, { "*", { { false, false, { "*" } } }, false }, { "a/b", { { false, false, { "a", "b" } } }, false },
            { "*/a", { { false, false, { "*", "a" } } }, false }, { ".//a", { { false, true, { "a" } } }, false }, { ".//*", { { false, true, { "*" } } }, false },
            { "./b", { { false, false, { ".", "b" } } }, false }, { "a|b", { { false, false, { "a" } }, { false, false, { "b" } } }, false }, { ".//b/a", { { false, true, { "b", "a" } } }, false },
            { "/root/a", { { true, false, { "root", "a" } } }, false }, { "e", { { false, false, { "e" } } }, false }, { ".//e|.//d", { { false, true, { "e" } }, { false, true, { "d" } } }, false },
            { "*/*", { { false, false, { "*", "*" } } }, false }, { "/root/*/b", { { true, false, { "root", "*", "b" } } }, false }, { ".//c/*", { { false, true, { "c", "*" } } }, false },
            { "a/", {}, true }, { "a b", {}, true } };
        return t;
    }
    // reference evaluation; `ambiguous` is set when a Level 1 element whose name contains a colon meets a name test (XPath is defined on namespace-aware trees only)
    static bool xpMatch(Node* e, const char* test, bool& ambiguous) {
        if (test[0] == '*' && !test[1]) return true; std::u16string t = U(test);
        if (e->hasNs) { size_t c = e->name.find(u':'); return e->ns.empty() && (c == std::u16string::npos ? e->name : e->name.substr(c + 1)) == t; }
        if (e->name.find(u':') != std::u16string::npos) { ambiguous = true; return false; }
        return e->name == t;
    }
    static void xpSubtree(Node* n, std::vector<Node*>& out) { if (n->type == refdom::ELEMENT || n->type == refdom::DOCUMENT) out.push_back(n); for (auto k : n->kids) if (k->type == refdom::ELEMENT) xpSubtree(k, out); }
    static std::vector<Node*> xpEval(const XpExpr& ex, Node* ctx, bool& ambiguous) {
        std::set<Node*> hit; Node* top = nullptr;
        for (auto& p : ex.alts) {
            Node* c = p.fromRoot ? docNode(ctx) : ctx; if (!top || p.fromRoot) top = c;
            std::vector<Node*> cur; if (p.desc) xpSubtree(c, cur); else cur.push_back(c);
            for (auto st : p.steps) { if (st[0] == '.' && !st[1]) continue; std::vector<Node*> nxt; std::set<Node*> seen; for (auto n : cur) for (auto k : n->kids) if (k->type == refdom::ELEMENT && xpMatch(k, st, ambiguous) && seen.insert(k).second) nxt.push_back(k); cur.swap(nxt); }
            for (auto n : cur) hit.insert(n);
        }
        std::vector<Node*> order, out; if (top) xpSubtree(top, order); for (auto n : order) if (hit.count(n)) out.push_back(n); return out;      // document order
    }

    static const unsigned* showTable() { static const unsigned t[] = { 0xFFFFFFFFu, 0x1u, 0x4u, 0x5u, 0xFFFFFFFEu, 0xC0u, 0x1Du, 0xFFFFFFFFu }; return t; }
    Node* rOf(const DOMNode* x, bool& known) const { known = true; if (!x) return nullptr; auto it = w.byX.find(x); if (it == w.byX.end()) { known = false; return nullptr; } return w.slots[it->second].r; }
    std::string nm(Node* r) const { if (!r) return "null"; return "#" + std::to_string(r->id) + "(" + n8(r->name) + ")"; }
    std::string nmx(const DOMNode* x) const { bool k; Node* r = rOf(x, k); if (!x) return "null"; if (!k) return "<unregistered node '" + pu8(x->getNodeName()) + "'>"; return nm(r); }
    DOMDocument* docOf(Slot* s) const { return s->r->type == refdom::DOCUMENT ? (DOMDocument*)s->x : (DOMDocument*)w.xOf(s->r->doc); }
    bool referenced(Node* sub) const {       // does any view hold a node inside the subtree of `sub`?
        auto in = [&](Node* n) { return n && refdom::Model::isAncestorOrSelf(sub, n); };
        for (auto& i : its) if (in(i.m->root) || in(i.m->ref)) return true;
        for (auto& t : tws) if (in(t.m.root) || in(t.m.cur)) return true;
        for (auto& l : lis) if (in(l.m.root)) return true;
        for (auto& r : rgs) if (!r.m->detached && (in(r.m->s.c) || in(r.m->e.c))) return true;
        for (auto& x : xrs) for (auto n : x.items) if (in(n)) return true;
        return false;
    }

    static Node* docNode(Node* n) { return n->type == refdom::DOCUMENT ? n : n->doc; }
    // pair the nodes of a subtree that an operation created on both sides (clones inside fragments, split-off text) and
    // verify that the nodes which must be the ORIGINAL ones (moved, not copied) are
    bool pairNew(Node* r, DOMNode* x, std::string& why) {
        if (!x) { why = "a node of the reference result is missing (" + nm(r) + ")"; return false; }
        auto it = w.byR.find(r);
        if (it == w.byR.end()) { if (w.byX.count(x)) { why = "a node that should be a new copy is the existing node " + nmx(x); return false; } w.add(r, x); }
        else if (w.slots[it->second].x != x) { why = "expected the original node " + nm(r) + " here (moved, not copied), found " + nmx(x); return false; }
        if ((int)x->getNodeType() != r->type) { why = "node type differs at " + nm(r); return false; }
        if (r->type == refdom::ELEMENT) { DOMNamedNodeMap* am = x->getAttributes(); if (!am || am->getLength() != r->attrs.size()) { why = "attribute count differs at " + nm(r); return false; } for (auto a : r->attrs) { if (w.byR.count(a)) continue; std::u16string an = a->name; DOMNode* xa = am->getNamedItem((const XMLCh*)an.c_str()); if (!xa) { why = "attribute missing at " + nm(r); return false; } w.add(a, xa); a->idAttr = ((DOMAttr*)xa)->isId(); } }
        DOMNode* c = x->getFirstChild(); for (auto k : r->kids) { if (!pairNew(k, c, why)) return false; c = c->getNextSibling(); }
        if (c) { why = "extra child under " + nm(r) + ": " + nmx(c); return false; }
        return true;
    }

    // the tail node a split created inside an operation: found in the real tree at the position the model has it
    bool pairTail(Node* tail) { if (!tail->parent) return false; DOMNode* px = w.xOf(tail->parent); if (!px) return false; DOMNode* tx = px->getFirstChild(); for (int i = tail->indexInParent(); i > 0 && tx; i--) tx = tx->getNextSibling(); if (!tx || (int)tx->getNodeType() != tail->type || w.byX.count(tx)) return false; w.add(tail, tx); return true; }

    // ---- after every step
    std::string check(bool fullLists) {
        // Whether an attribute keeps its ID-ness when it is removed, re-attached, adopted, renamed or copied is not specified: the model
        // adopts Attr::isId() after every step, and getElementById is judged against that (isId + value unique in the tree => found)
        for (auto& sl : w.slots) if (!sl.dead && sl.r->type == refdom::ATTRIBUTE) sl.r->idAttr = ((DOMAttr*)sl.x)->isId();
        for (size_t i = 0; i < rgs.size(); i++) { RgV& r = rgs[i]; if (r.m->detached) continue;
            std::string inv = r.m->invalid(); if (!inv.empty()) return "harness:model-range-invalid|range " + std::to_string(i) + ": " + inv;
            DOMNode* sc = nullptr; DOMNode* ec = nullptr; XMLSize_t so = 0, eo = 0; bool col = false; const DOMNode* ca = nullptr;
            try { sc = r.x->getStartContainer(); so = r.x->getStartOffset(); ec = r.x->getEndContainer(); eo = r.x->getEndOffset(); col = r.x->getCollapsed(); ca = r.x->getCommonAncestorContainer(); }
            catch (const DOMException& e) { return "view:range-getter-throws|range " + std::to_string(i) + ": a boundary-point getter raised DOMException code " + std::to_string((int)e.code); }
            std::string have = "(" + nmx(sc) + "," + std::to_string(so) + ")-(" + nmx(ec) + "," + std::to_string(eo) + ")", want = "(" + nm(r.m->s.c) + "," + std::to_string(r.m->s.o) + ")-(" + nm(r.m->e.c) + "," + std::to_string(r.m->e.o) + ")";
            if (sc != w.xOf(r.m->s.c) || so != r.m->s.o || ec != w.xOf(r.m->e.c) || eo != r.m->e.o) return "view:range-boundary|range " + std::to_string(i) + " is " + have + ", the DOM Range rules give " + want;
            if (col != r.m->collapsed()) return "view:range-collapsed|range " + std::to_string(i) + " " + have + ": getCollapsed() is " + (col ? "true" : "false");
            if (ca != w.xOf(r.m->commonAncestor())) return "view:range-common-ancestor|range " + std::to_string(i) + " " + have + ": getCommonAncestorContainer() is " + nmx(ca) + ", expected " + nm(r.m->commonAncestor());
        }
        for (size_t i = 0; i < tws.size(); i++) { TwV& t = tws[i]; DOMNode* c = t.x->getCurrentNode(); if (c != w.xOf(t.m.cur)) return "view:walker-current|walker " + std::to_string(i) + ": getCurrentNode() is " + nmx(c) + ", expected " + nm(t.m.cur) + " (a TreeWalker's current node is not moved by mutations)"; }
        if (fullLists) for (size_t i = 0; i < lis.size(); i++) { std::string e = checkList(i); if (!e.empty()) return e; }
        return "";
    }
    std::string checkList(size_t i) {
        LiV& l = lis[i]; std::vector<Node*> want = l.m.items(); XMLSize_t n = l.x->getLength(); g_run.probe("list_full_compare");
        if (n != want.size()) return "view:list-length|getElementsByTagName('" + n8(l.m.name) + "') under " + nm(l.m.root) + ": getLength() is " + std::to_string(n) + ", the tree has " + std::to_string(want.size()) + " matching elements";
        for (size_t k = 0; k < want.size(); k++) { DOMNode* x = l.x->item(k); if (x != w.xOf(want[k])) return "view:list-item|getElementsByTagName('" + n8(l.m.name) + "') under " + nm(l.m.root) + ": item(" + std::to_string(k) + ") is " + nmx(x) + ", expected " + nm(want[k]) + " (document order)"; }
        if (l.x->item(want.size()) != nullptr) return "view:list-item|item(length) is not null";
        return "";
    }

    static std::string errName(int e) { return e == 1 ? "INDEX_SIZE_ERR" : e == 3 ? "HIERARCHY_REQUEST_ERR" : e == 4 ? "WRONG_DOCUMENT_ERR" : e == 7 ? "NO_MODIFICATION_ALLOWED_ERR" : e == 8 ? "NOT_FOUND_ERR" : e == 9 ? "NOT_SUPPORTED_ERR" : e == 11 ? "INVALID_STATE_ERR" : e == 111 ? "BAD_BOUNDARYPOINTS_ERR" : e == 112 ? "INVALID_NODE_TYPE_ERR" : std::to_string(e); }
    static std::string errNames(const Verdict& v) { std::string s; for (int e : v.errs) { if (!s.empty()) s += " or "; s += errName(e); } return s; }
    // common judgement of the exception behaviour of a view call
    std::string judge(const char* opn, Verdict& v, bool threw, int got, size_t& forbidden) {
        g_run.probes[std::string("vop:") + opn]++;
        if (v.ok() && threw && v.refusal.count(got)) { g_run.probe("tolerated_refusal"); v.add(got); return ""; }      // caller skips the model step (v is no longer ok)
        if (!v.ok()) { forbidden++; g_run.fault("forbidden-view-op");
            if (!threw) return std::string("view:forbidden-op-accepted:") + opn + "|the specification forbids this call (" + errNames(v) + ") but no exception was raised";
            if (!v.errs.count(got)) return std::string("view:wrong-exception-code:") + opn + "|exception code " + errName(got) + " raised, the violated preconditions allow " + errNames(v);
            return ""; }
        if (threw) return std::string("view:unexpected-exception:") + opn + "|exception code " + errName(got) + " for a call the specification allows";
        return "";
    }

    // ---- one view operation; returns "" or "class|detail". `handled` tells whether k was a view operation at all.
    std::string run(const Json& op, const std::string& k, bool& handled, size_t& forbidden, size_t& viewOps) {
        handled = true;
        Slot* A = w.pick(op.geti("a")); Slot* B = w.pick(op.geti("b")); int n = (int)op.geti("n"), mm = (int)op.geti("m"); bool flag = op.getb("f"); size_t c = (size_t)op.geti("c");
        Verdict v; bool threw = false; int got = 0;
        static const bool trace = getenv("DOMSIM_TRACE") != nullptr;
        if (trace && k.size() > 2 && (k[0] == 'i' || k[0] == 't' || k[0] == 'l' || k[0] == 'r')) {
            std::string st; if (k[0] == 'r' && k[1] == 'g' && !rgs.empty()) { auto& r = *rgs[c % rgs.size()].m; st = " range" + std::to_string(c % rgs.size()) + "=(" + nm(r.s.c) + "," + std::to_string(r.s.o) + ")-(" + nm(r.e.c) + "," + std::to_string(r.e.o) + ")" + (r.detached ? " detached" : ""); }
            if (k[0] == 'i' && k[1] == 't' && !its.empty()) { auto& i = *its[c % its.size()].m; st = " iterator" + std::to_string(c % its.size()) + " root " + nm(i.root) + " ref " + nm(i.ref) + (i.before ? " before" : " after"); }
            if (k[0] == 't' && !tws.empty()) { auto& t = tws[c % tws.size()].m; st = " walker" + std::to_string(c % tws.size()) + " root " + nm(t.root) + " cur " + nm(t.cur); }
            fprintf(stderr, "TRACE %s sub(n)=%d m=%d flag=%d A=%s B=%s%s\n", k.c_str(), n, mm, (int)flag, A ? nm(A->r).c_str() : "dead", B ? (nm(B->r) + " t" + std::to_string(B->r->type) + " parent " + nm(B->r->parent)).c_str() : "dead", st.c_str()); }
#define VTRY(stmt) try { stmt; } catch (const DOMException& e) { threw = true; got = (int)e.code; }
        if (k == "itNew" || k == "twNew") {
            if (!A || A->r->type == refdom::ATTRIBUTE) return ""; bool it = k == "itNew"; if ((it ? its.size() : tws.size()) >= 6) return "";
            refdom::FilterSpec fs; fs.show = showTable()[n % 8]; fs.kind = mm % 4;
            // walkers that combine a rejecting filter with a restrictive mask run into the known whatToShow finding: keep them to a sixth
            if (!it && fs.kind >= 2 && op.geti("t") % 6 != 0) fs.show = 0xFFFFFFFFu;
 SimFilter* f = fs.kind ? new SimFilter(&w, fs.kind) : nullptr; DOMDocument* d = docOf(A);
            if (it) { ItV iv; iv.f = f; VTRY(iv.x = d->createNodeIterator(A->x, fs.show, f, true)); std::string e = judge("createNodeIterator", v, threw, got, forbidden); if (!e.empty()) { delete f; return e; } iv.m = new refdom::RefIterator(); iv.m->root = A->r; iv.m->ref = A->r; iv.m->f = fs; w.m.observers.push_back(iv.m); its.push_back(iv); }
            else { TwV tv; tv.f = f; VTRY(tv.x = d->createTreeWalker(A->x, fs.show, f, true)); std::string e = judge("createTreeWalker", v, threw, got, forbidden); if (!e.empty()) { delete f; return e; } tv.m.root = A->r; tv.m.cur = A->r; tv.m.f = fs; tws.push_back(tv); }
            viewOps++; return "";
        }
        if (k == "itStep" || k == "itDetach") {
            if (its.empty()) return ""; ItV& iv = its[c % its.size()]; viewOps++;
            if (k == "itDetach") { if (iv.m->detached) return ""; VTRY(iv.x->detach()); std::string e = judge("iterator.detach", v, threw, got, forbidden); if (!e.empty()) return e; iv.m->detached = true; return ""; }
            if (iv.m->detached) v.add(refdom::INVALID_STATE_ERR);
            DOMNode* x = nullptr; VTRY(x = flag ? iv.x->nextNode() : iv.x->previousNode()); std::string e = judge(flag ? "iterator.nextNode" : "iterator.previousNode", v, threw, got, forbidden); if (!e.empty() || !v.ok()) return e;
            std::string before = nm(iv.m->ref) + (iv.m->before ? " (iterator before it)" : " (iterator after it)"); Node* want = iv.m->step(flag);
            if (trace) fprintf(stderr, "TRACE   -> real %s model %s\n", nmx(x).c_str(), nm(want).c_str());
            if (x != w.xOf(want)) return std::string("view:iterator-step|") + (flag ? "nextNode()" : "previousNode()") + " of iterator " + std::to_string(c % its.size()) + " (root " + nm(iv.m->root) + ", whatToShow " + std::to_string(iv.m->f.show) + ", filter " + std::to_string(iv.m->f.kind) + ", reference node " + before + ") returned " + nmx(x) + ", DOM Traversal gives " + nm(want);
            if (x) { bool known; Node* r = rOf(x, known); if (r && !refdom::Model::isAncestorOrSelf(iv.m->root, r)) return "view:iterator-outside-root|the iterator returned a node that is not in the subtree of its root"; }
            return "";
        }
        if (k == "twStep") {
            if (tws.empty()) return ""; TwV& tv = tws[c % tws.size()]; viewOps++; int sub = n % 9; DOMNode* x = nullptr; Node* want = nullptr;
            static const char* names[] = { "parentNode", "firstChild", "lastChild", "previousSibling", "nextSibling", "previousNode", "nextNode", "setCurrentNode", "getCurrentNode" };
            if (sub == 7) { if (!B || B->r->type == refdom::ATTRIBUTE || B->r->doc != tv.m.root->doc || B->r->type == refdom::DOCUMENT) return ""; VTRY(tv.x->setCurrentNode(B->x)); std::string e = judge("walker.setCurrentNode", v, threw, got, forbidden); if (!e.empty()) return e; tv.m.cur = B->r; return ""; }
            if (sub == 8) return "";     // compared after every step anyway
            bool inside = tv.m.curInsideRoot(); Node* curBefore = tv.m.cur;
            // a current node placed (by setCurrentNode or by mutation) inside a subtree the filter rejects is outside the logical view: how navigation leaves such a subtree is open
            // (likewise a current node that the filter itself does not accept - only setCurrentNode puts the walker there)
            if (inside) for (Node* a = tv.m.cur; a && a != tv.m.root; a = a->parent) if (tv.m.f(a) == refdom::F_REJECT || (a == tv.m.cur && tv.m.f(a) != refdom::F_ACCEPT)) { inside = false; g_run.probe("walker_outside_logical_view"); break; }
            VTRY(x = sub == 0 ? tv.x->parentNode() : sub == 1 ? tv.x->firstChild() : sub == 2 ? tv.x->lastChild() : sub == 3 ? tv.x->previousSibling() : sub == 4 ? tv.x->nextSibling() : sub == 5 ? tv.x->previousNode() : tv.x->nextNode());
            std::string e = judge((std::string("walker.") + names[sub]).c_str(), v, threw, got, forbidden); if (!e.empty()) return e;
            if (!inside) {      // current node moved out of the root's subtree: Level 2 leaves the navigation open; only adopt the result
                g_run.probe("walker_outside_root"); bool known; Node* r = rOf(tv.x->getCurrentNode(), known); if (!known) return "view:walker-current|the walker's current node is a node nobody created"; tv.m.cur = r; return ""; }
            auto stepModel = [&](refdom::RefWalker& m) { return sub == 0 ? m.parentNode() : sub == 1 ? m.children(true) : sub == 2 ? m.children(false) : sub == 3 ? m.siblings(false) : sub == 4 ? m.siblings(true) : sub == 5 ? m.previousNode() : m.nextNode(); };
            want = stepModel(tv.m);
            if (x != w.xOf(want)) { refdom::RefWalker alt = tv.m; alt.cur = curBefore; alt.f.rejectThroughMask = true;
                bool altRejectedAncestor = false; for (Node* a = curBefore; a && a != alt.root; a = a->parent) if (alt.f(a) == refdom::F_REJECT) altRejectedAncestor = true;      // under that reading the current node sits in a rejected subtree (navigation out of one is open, see above)
                Node* want2 = stepModel(alt);
                if (altRejectedAncestor || x == w.xOf(want2)) return std::string("view:walker-whattoshow-reject|") + names[sub] + "() of a walker with whatToShow " + std::to_string(tv.m.f.show) + " and a filter that rejects a node whatToShow excludes: returned " + nmx(x) + ", DOM Traversal (whatToShow is applied first, the node is skipped, the filter is not asked) gives " + nm(want); }
            if (x != w.xOf(want)) return std::string("view:walker-step|") + names[sub] + "() of walker " + std::to_string(c % tws.size()) + " (root " + nm(tv.m.root) + ", whatToShow " + std::to_string(tv.m.f.show) + ", filter " + std::to_string(tv.m.f.kind) + ", current node " + nm(curBefore) + ") returned " + nmx(x) + ", DOM Traversal gives " + nm(want);
            return "";
        }
        if (k == "liNew") {
            if (!A || (A->r->type != refdom::ELEMENT && A->r->type != refdom::DOCUMENT) || lis.size() >= 6) return ""; static const char* names[] = { "a", "b", "*", "c", "root", "d", "*", "x:y" }; std::u16string name = U(names[n % 8]);
            LiV lv; VTRY(lv.x = A->r->type == refdom::ELEMENT ? ((DOMElement*)A->x)->getElementsByTagName((const XMLCh*)name.c_str()) : ((DOMDocument*)A->x)->getElementsByTagName((const XMLCh*)name.c_str()));
            std::string e = judge("getElementsByTagName", v, threw, got, forbidden); if (!e.empty()) return e; if (!lv.x) return "view:list-null|getElementsByTagName returned null"; lv.m.root = A->r; lv.m.name = name; lis.push_back(lv); viewOps++; return "";
        }
        if (k == "liItem") {
            if (lis.empty()) return ""; size_t li = c % lis.size(); LiV& lv = lis[li]; viewOps++; std::vector<Node*> want = lv.m.items();
            if (flag) return checkList(li);
            size_t idx = (size_t)n % (want.size() + 2); DOMNode* x = nullptr; VTRY(x = lv.x->item(idx)); std::string e = judge("list.item", v, threw, got, forbidden); if (!e.empty()) return e;
            Node* w1 = idx < want.size() ? want[idx] : nullptr; if (x != w.xOf(w1)) return "view:list-item|getElementsByTagName('" + n8(lv.m.name) + "') under " + nm(lv.m.root) + ": item(" + std::to_string(idx) + ") is " + nmx(x) + ", expected " + nm(w1) + " (random access after mutations)";
            if ((mm & 1) && lv.x->getLength() != want.size()) return "view:list-length|getElementsByTagName('" + n8(lv.m.name) + "') under " + nm(lv.m.root) + ": getLength() is " + std::to_string(lv.x->getLength()) + ", the tree has " + std::to_string(want.size()) + " matching elements";
            return "";
        }
        if (k == "idSet") {
            if (!A || A->r->type != refdom::ELEMENT || A->r->attrs.empty()) {      // the drawn node has no attribute: take the next live element that has one (few elements do)
                std::vector<Slot*> withAttr, inTree; for (auto& s : w.slots) if (!s.dead && s.r->type == refdom::ELEMENT && !s.r->attrs.empty()) { withAttr.push_back(&s); if (s.r->root()->type == refdom::DOCUMENT) inTree.push_back(&s); }
                if (withAttr.empty()) return ""; if (!inTree.empty() && n % 4 != 0) withAttr.swap(inTree); A = withAttr[(size_t)op.geti("a") % withAttr.size()]; }
            Node* a = A->r->attrs[(size_t)op.geti("b") % A->r->attrs.size()]; if (a->hasNs) return "";
            bool isId = mm % 4 != 0; VTRY(((DOMElement*)A->x)->setIdAttribute((const XMLCh*)a->name.c_str(), isId)); std::string e = judge("setIdAttribute", v, threw, got, forbidden); if (!e.empty()) return e; a->idAttr = isId; viewOps++; return "";
        }
        if (k == "idGet") {
            if (!A) return ""; DOMDocument* d = docOf(A); Node* rd = A->r->type == refdom::DOCUMENT ? A->r : A->r->doc; std::u16string val = U(kTexts[op.geti("t") % 8]);
            if (flag) { std::vector<std::u16string> ids; for (auto& s : w.slots) { if (s.dead || s.r->type != refdom::ELEMENT || s.r->doc != rd) continue; for (auto a : s.r->attrs) if (a->idAttr) ids.push_back(refdom::Model::textOf(a)); }      // half of the lookups ask for a value that is (or was just made) an ID
                if (!ids.empty()) val = ids[c % ids.size()]; }
            if (val.empty()) return "";
            // candidates: live elements of this document with an ID attribute of that value
            std::vector<Node*> cand; for (auto& s : w.slots) { if (s.dead || s.r->type != refdom::ELEMENT || s.r->doc != rd) continue; for (auto a : s.r->attrs) if (a->idAttr && refdom::Model::textOf(a) == val) { cand.push_back(s.r); break; } }
            DOMElement* x = nullptr; VTRY(x = d->getElementById((const XMLCh*)val.c_str())); std::string e = judge("getElementById", v, threw, got, forbidden); if (!e.empty()) return e; viewOps++;
            if (cand.empty()) { if (x) return "view:get-element-by-id|getElementById('" + n8(val) + "') returned " + nmx(x) + " although no element of the document has an ID attribute with that value"; return ""; }
            if (cand.size() == 1 && cand[0]->root() == rd) { g_run.probe("id_lookup_determined"); if (x != w.xOf(cand[0])) return "view:get-element-by-id|getElementById('" + n8(val) + "') returned " + nmx(x) + ", the only element with that ID in the document tree is " + nm(cand[0]); }
            return "";      // several candidates, or one outside the document tree: the specification leaves the result open
        }
        if (k == "xpEval" || k == "xpRead") {
            static const DOMXPathResult::ResultType types[] = { DOMXPathResult::ORDERED_NODE_SNAPSHOT_TYPE, DOMXPathResult::UNORDERED_NODE_SNAPSHOT_TYPE, DOMXPathResult::FIRST_ORDERED_NODE_TYPE, DOMXPathResult::ANY_UNORDERED_NODE_TYPE };
            auto compare = [&](XrV& xr, const std::string& when) -> std::string {
                std::string head = std::string("view:xpath-result|evaluate('") + xr.expr + "') " + when + ": ";
                try {
                    if (xr.type < 2) {
                        XMLSize_t len = xr.x->getSnapshotLength(); std::vector<const DOMNode*> got2; for (XMLSize_t i = 0; i < len; i++) { if (!xr.x->snapshotItem(i)) return head + "snapshotItem(" + std::to_string(i) + ") is false below getSnapshotLength()"; got2.push_back(xr.x->getNodeValue()); }
                        if (xr.x->snapshotItem(len)) return head + "snapshotItem(length) is true";
                        std::vector<const DOMNode*> want2; for (auto n : xr.items) want2.push_back(w.xOf(n));
                        std::string have, want; for (auto g : got2) have += nmx(g) + " "; for (auto n : xr.items) want += nm(n) + " ";
                        if (xr.type == 1) { std::sort(got2.begin(), got2.end()); std::sort(want2.begin(), want2.end()); }
                        if (got2 != want2) {
                            // known deviation of the streaming matcher: it keeps ONE partial match per path; where two candidates for the first step of a './/x/y' path are
                            // nested (x inside x), matches that belong to the inner one are lost. Classified as that finding only if the result merely lacks such nodes.
                            bool onlyNestedLost = xr.nestable && got2.size() < want2.size(); std::set<const DOMNode*> gs(got2.begin(), got2.end()); if (gs.size() != got2.size()) onlyNestedLost = false; for (auto g : got2) if (std::find(want2.begin(), want2.end(), g) == want2.end()) onlyNestedLost = false;
                            if (onlyNestedLost) for (auto n : xr.items) if (!gs.count(w.xOf(n))) { int firstStepAncestors = 0; bool amb = false; for (Node* a = n->parent; a && a != xr.ctx; a = a->parent) if (a->type == refdom::ELEMENT && xpMatch(a, xr.firstStep, amb)) firstStepAncestors++; if (firstStepAncestors < 2) onlyNestedLost = false; }
                            return (onlyNestedLost ? std::string("view:xpath-nested-partial-match|evaluate('") + xr.expr + "') " + when + ": " : head) + "the snapshot holds [ " + have + "], XPath gives [ " + want + "]" + (xr.type == 0 ? " (document order)" : " (as a set)"); }
                    } else {
                        const DOMNode* g = xr.x->getNodeValue();
                        if (xr.items.empty() ? g != nullptr : (xr.type == 2 ? g != w.xOf(xr.items[0]) : std::find_if(xr.items.begin(), xr.items.end(), [&](Node* n) { return w.xOf(n) == g; }) == xr.items.end())) return head + "the single-node result is " + nmx(g) + ", XPath gives " + (xr.items.empty() ? std::string("no node") : (xr.type == 2 ? "the first node in document order, " + nm(xr.items[0]) : std::string("one of ") + std::to_string(xr.items.size()) + " nodes"));
                    }
                } catch (const DOMException& e) { return head + "reading the result raised exception code " + std::to_string((int)e.code); }
                return ""; };
            if (k == "xpRead") { if (xrs.empty()) return ""; viewOps++; g_run.probe("vop:xpath.reread"); return compare(xrs[c % xrs.size()], "read again after later mutations (a snapshot does not change)"); }
            if (!A || A->r->type != refdom::ELEMENT) return "";      // (xerces-c evaluates with element context nodes only: NOT_SUPPORTED_ERR otherwise, documented)
            const XpExpr& ex = xpTable()[(size_t)(n + 14 * (mm / 4)) % xpTable().size()]; int ty = mm % 4; bool ambiguous = false; DOMDocument* d = docOf(A);
            bool nestable = false; const char* firstStep = "*"; for (auto& pth : ex.alts) { size_t names = 0; for (auto st : pth.steps) if (!(st[0] == '.' && !st[1])) names++; if (pth.desc && names >= 2) { nestable = true; firstStep = pth.steps[0]; } }
            if (nestable) ty &= 1;      // (paths that can hit the nested-partial-match finding are read as snapshots, where the finding can be told from anything else)
            std::vector<Node*> want = ex.invalid ? std::vector<Node*>() : xpEval(ex, A->r, ambiguous); if (ex.invalid) v.add(51);      // DOMXPathException::INVALID_EXPRESSION_ERR
            bool reuse = flag && !xrs.empty(); size_t slot = reuse ? c % xrs.size() : xrs.size(); DOMXPathResult* res = nullptr; std::u16string et = U(ex.text);
            VTRY(res = d->evaluate((const XMLCh*)et.c_str(), A->x, nullptr, types[ty], reuse ? xrs[slot].x : nullptr));
            std::string e = judge("xpath.evaluate", v, threw, got, forbidden); if (!e.empty() || !v.ok()) return e; viewOps++;
            if (!res) return "view:xpath-result|evaluate('" + std::string(ex.text) + "') returned null";
            if (reuse && res != xrs[slot].x) return "view:xpath-result|evaluate() with a result object to reuse returned a different object";
            XrV xr; xr.x = res; xr.items = want; xr.type = ty; xr.expr = ex.text; xr.nestable = nestable; xr.firstStep = firstStep; xr.ctx = A->r;
            if (ambiguous) { g_run.probe("xpath_ambiguous_level1_name"); if (reuse) { xrs[slot].x = nullptr; xrs.erase(xrs.begin() + (long)slot); } res->release(); return ""; }
            std::string ce = compare(xr, "from " + nm(A->r)); if (!ce.empty()) { if (!reuse) res->release(); return ce; }
            if (reuse) xrs[slot] = xr; else if (xrs.size() < 4) xrs.push_back(xr); else res->release();
            return "";
        }
        if (k == "rgNew") {
            if (!A || rgs.size() >= 5) return ""; DOMDocument* d = docOf(A); Node* rd = A->r->type == refdom::DOCUMENT ? A->r : A->r->doc; RgV rv; VTRY(rv.x = d->createRange()); std::string e = judge("createRange", v, threw, got, forbidden); if (!e.empty()) return e;
            rv.m = new refdom::RefRange(); rv.m->m = &w.m; rv.m->s = refdom::BP{ rd, 0 }; rv.m->e = rv.m->s; rv.doc = rd; rv.m->doc = rd; w.m.observers.push_back(rv.m); rgs.push_back(rv); viewOps++; return "";
        }
        if (k == "rgSet") {
            if (rgs.empty()) return ""; size_t ri = c % rgs.size(); RgV& rv = rgs[ri]; int sub = n % 10; viewOps++;
            if (sub == 8) { v = rv.m->collapse(flag); VTRY(rv.x->collapse(flag)); Verdict keep = v; return judge("range.collapse", keep, threw, got, forbidden); }
            if (!B || B->r->type == refdom::ATTRIBUTE || B->r->root()->type == refdom::ATTRIBUTE) return ""; Node* b = B->r; if (docNode(b) != rv.doc) return "";     // nodes of another document: WRONG_DOCUMENT_ERR handling is not modelled
            size_t off = (size_t)mm % (b->length() + 2); if (mm >= 6) off = (size_t)(op.geti("t") * 3 + mm) % (b->length() + 2);
            static const char* names[] = { "setStart", "setEnd", "setStartBefore", "setStartAfter", "setEndBefore", "setEndAfter", "selectNode", "selectNodeContents", "collapse", "setEnd" };
            if (sub >= 2 && sub <= 6 && !b->parent && !refdom::RefRange::badRelNodeType(b)) return "";     // a parentless node: Level 2 does not say what the call means
            { int rt = b->root()->type; if ((sub < 2 || sub >= 6) && rt != refdom::DOCUMENT && rt != refdom::FRAGMENT) return ""; }      // Level 2 defines ranges in trees rooted at a Document, DocumentFragment (or Attr) only; the Before/After setters must refuse other roots, the other setters are not exercised there
            refdom::BP s0 = rv.m->s, e0 = rv.m->e;
            switch (sub) { case 0: v = rv.m->setStart(b, off); break; case 1: case 9: v = rv.m->setEnd(b, off); break; case 2: v = rv.m->setStartBefore(b); break; case 3: v = rv.m->setStartAfter(b); break; case 4: v = rv.m->setEndBefore(b); break; case 5: v = rv.m->setEndAfter(b); break; case 6: v = rv.m->selectNode(b); break; default: v = rv.m->selectNodeContents(b); break; }
            VTRY(switch (sub) { case 0: rv.x->setStart(B->x, off); break; case 1: case 9: rv.x->setEnd(B->x, off); break; case 2: rv.x->setStartBefore(B->x); break; case 3: rv.x->setStartAfter(B->x); break; case 4: rv.x->setEndBefore(B->x); break; case 5: rv.x->setEndAfter(B->x); break; case 6: rv.x->selectNode(B->x); break; default: rv.x->selectNodeContents(B->x); break; });
            std::string e = judge((std::string("range.") + names[sub]).c_str(), v, threw, got, forbidden); if (!v.ok()) { rv.m->s = s0; rv.m->e = e0; } return e;
        }
        if (k == "rgOp") {
            if (rgs.empty()) return ""; size_t ri = c % rgs.size(); RgV& rv = rgs[ri]; int sub = n % 10; viewOps++; refdom::RefRange& R = *rv.m;
            if (sub == 9) { if (R.detached) v.add(refdom::INVALID_STATE_ERR); VTRY(rv.x->detach()); std::string e = judge("range.detach", v, threw, got, forbidden); if (e.empty() && v.ok()) R.detached = true; return e; }
            if (sub == 0) { if (R.detached) v.add(refdom::INVALID_STATE_ERR); const XMLCh* sx = nullptr; VTRY(sx = rv.x->toString()); std::string e = judge("range.toString", v, threw, got, forbidden); if (!e.empty() || !v.ok()) return e; if (R.s.c->type == refdom::COMMENT || R.s.c->type == refdom::PI || R.e.c->type == refdom::COMMENT || R.e.c->type == refdom::PI) return "";      // a boundary inside a comment / PI: whether its data counts as "data characters" is open
                std::u16string want = R.toString(); if (xs(sx) != want) return "view:range-tostring|toString() of range " + std::to_string(ri) + " is '" + pu8(sx) + "', the character data inside the range is '" + n8(want) + "'"; return ""; }
            if (sub == 1) { if (rgs.size() >= 5) return ""; if (R.detached) v.add(refdom::INVALID_STATE_ERR); DOMRange* x = nullptr; VTRY(x = rv.x->cloneRange()); std::string e = judge("range.cloneRange", v, threw, got, forbidden); if (!e.empty() || !v.ok()) return e; RgV nv; nv.x = x; nv.doc = rv.doc; nv.m = new refdom::RefRange(); nv.m->m = &w.m; nv.m->doc = rv.doc; nv.m->s = R.s; nv.m->e = R.e; w.m.observers.push_back(nv.m); rgs.push_back(nv); return ""; }
            if (sub == 2) { RgV& other = rgs[(size_t)op.geti("b") % rgs.size()]; int how = mm % 4; int want = 0; v = R.compareBoundaryPoints(how, *other.m, want); short gotv = 0;
                static const DOMRange::CompareHow hows[] = { DOMRange::START_TO_START, DOMRange::START_TO_END, DOMRange::END_TO_END, DOMRange::END_TO_START };
                VTRY(gotv = rv.x->compareBoundaryPoints(hows[how], other.x)); std::string e = judge("range.compareBoundaryPoints", v, threw, got, forbidden); if (!e.empty() || !v.ok()) return e;
                if (gotv != want) return "view:range-compare|compareBoundaryPoints(how=" + std::to_string(how) + ") returned " + std::to_string(gotv) + ", the boundary points compare as " + std::to_string(want); return ""; }
            if (sub >= 3 && sub <= 5) {      // cloneContents / extractContents / deleteContents
                int how = sub == 3 ? 1 : sub == 4 ? 0 : 2; if (R.detached) v.add(refdom::INVALID_STATE_ERR); else if (how != 1) v = R.checkMutable();
                DOMDocumentFragment* fx = nullptr; VTRY(if (how == 1) fx = rv.x->cloneContents(); else if (how == 0) fx = rv.x->extractContents(); else rv.x->deleteContents());
                std::string e = judge(how == 1 ? "range.cloneContents" : how == 0 ? "range.extractContents" : "range.deleteContents", v, threw, got, forbidden); if (!e.empty() || !v.ok()) return e;
                Node* fr = R.contents(how);
                if (how != 2) { std::string why; if (!fx) return "view:range-contents|the content operation returned null"; if (!pairNew(fr, fx, why)) return std::string("view:range-contents|the fragment returned by ") + (how == 1 ? "cloneContents" : "extractContents") + " differs from the reference: " + why; }
                return "";
            }
            if (sub == 6 || sub == 7) {      // insertNode
                if (!B) return ""; Node* b = B->r; if (R.detached) { v.add(refdom::INVALID_STATE_ERR); }
                else {
                    Node* sc = R.s.c; if (docNode(b) != rv.doc) return "";
                    if (sc->type == refdom::COMMENT || sc->type == refdom::PI) return "";      // start inside a comment / PI: out of scope (Level 2 only speaks of Text containers)
                    bool text = sc->type == refdom::TEXT || sc->type == refdom::CDATA; if (text && !sc->parent) return "";      // a Text node without parent cannot be split around a new sibling: unspecified
                    if (b->type == refdom::ATTRIBUTE || b->type == refdom::DOCUMENT || b->type == refdom::ENTITY || b->type == refdom::NOTATION) v.add(refdom::RANGE_INVALID_NODE_TYPE_ERR);
                    Node* parent = text ? sc->parent : sc; Node* ref = text ? nullptr : (R.s.o < sc->kids.size() ? sc->kids[R.s.o] : nullptr);
                    if (b == ref || (text && b == sc)) return "";       // inserting the node in front of itself / the start container itself: open
                    if (v.ok()) { Verdict c2 = w.m.checkInsert(parent, b, text ? nullptr : ref); if (c2.open) return ""; for (int x2 : c2.errs) v.add(x2); if (v.ok() && !c2.refusal.empty()) return ""; for (Node* p = sc; p; p = p->parent) if (p->readOnly) v.add(refdom::NO_MODIFICATION_ALLOWED_ERR); }
                }
                Node* sc = R.s.c; size_t so = R.s.o; bool text = !R.detached && (sc->type == refdom::TEXT || sc->type == refdom::CDATA);
                if (trace) { DOMNode* xsc = nullptr; try { xsc = rv.x->getStartContainer(); } catch (...) {} fprintf(stderr, "TRACE insertNode: real start container %s type %d, newNode type %d parent %s, expected %s\n", nmx(xsc).c_str(), xsc ? (int)xsc->getNodeType() : -1, (int)B->x->getNodeType(), nmx(B->x->getParentNode()).c_str(), errNames(v).c_str()); }
                VTRY(rv.x->insertNode(B->x)); if (trace) fprintf(stderr, "TRACE insertNode: threw=%d code=%d; newNode parent now %s\n", (int)threw, got, nmx(B->x->getParentNode()).c_str());
                std::string e = judge("range.insertNode", v, threw, got, forbidden); if (!e.empty() || !v.ok()) return e;
                if (text) { Node* tail = so > 0 ? w.m.splitText(sc, so) : nullptr; w.m.doInsert(sc->parent, b, tail ? tail : sc); if (tail && !pairTail(tail)) return "view:range-insert|insertNode inside a Text node did not split it"; }      // (no split at offset 0: the node goes in front of the Text node)
                else w.m.doInsert(sc, b, so < sc->kids.size() ? sc->kids[so] : nullptr);
                return "";
            }
            if (sub == 8) {      // surroundContents
                if (!B) return ""; Node* b = B->r;
                if (R.detached) v.add(refdom::INVALID_STATE_ERR);
                else {
                    Node* sc = R.s.c; Node* ec = R.e.c; if (docNode(b) != rv.doc) return "";
                    if (sc->type == refdom::COMMENT || sc->type == refdom::PI || ec->type == refdom::COMMENT || ec->type == refdom::PI) return "";
                    if (!b->kids.empty()) return "";      // Level 2 does not say what happens to existing children of newParent
                    if (sc->type != refdom::TEXT && sc->type != refdom::CDATA && R.s.o < sc->kids.size() && sc->kids[R.s.o] == b) return "";      // newParent already is the node at the start of the range: inserting a node in front of itself is implementation dependent
                    if (b->readOnly) return "";           // nor does it list a read-only newParent (an entity reference) among the preconditions
                    if ((sc->type == refdom::TEXT || sc->type == refdom::CDATA) && !sc->parent) return "";
                    if (refdom::Model::isAncestorOrSelf(b, sc) || refdom::Model::isAncestorOrSelf(b, ec)) { if (b->type != refdom::ELEMENT) return ""; }
                    int t = b->type; if (t == refdom::ATTRIBUTE || t == refdom::ENTITY || t == refdom::DOCUMENT_TYPE || t == refdom::NOTATION || t == refdom::DOCUMENT || t == refdom::FRAGMENT) v.add(refdom::RANGE_INVALID_NODE_TYPE_ERR);
                    if (t == refdom::DOCUMENT) v.add(refdom::WRONG_DOCUMENT_ERR);      // a Document has no owner document: "not created from the same document" is an equally valid complaint
                    Node* rs = (sc->type == refdom::TEXT || sc->type == refdom::CDATA) ? sc->parent : sc; Node* re = (ec->type == refdom::TEXT || ec->type == refdom::CDATA) ? ec->parent : ec; if (rs != re) v.add(refdom::RANGE_BAD_BOUNDARYPOINTS_ERR);
                    if (v.ok()) { Verdict cm = R.checkMutable(true); for (int x2 : cm.errs) v.add(x2); if (v.ok() && !R.checkMutable(false).refusal.empty()) return ""; }
                    if (v.ok()) { if (!refdom::Model::canHaveChildren(t)) v.add(refdom::HIERARCHY_REQUEST_ERR); else { if (refdom::Model::isAncestorOrSelf(b, rs)) v.add(refdom::HIERARCHY_REQUEST_ERR); if (!refdom::Model::kidOK(rs, b)) v.add(refdom::HIERARCHY_REQUEST_ERR); if (rs->type == refdom::DOCUMENT) return ""; } }
                    if (v.ok()) { /* contents must be legal children of newParent */ refdom::BP s0 = R.s, e0 = R.e; (void)s0; (void)e0; for (auto kid : rs->kids) { if (R.contained(kid) && !refdom::Model::kidOK(b, kid)) v.add(refdom::HIERARCHY_REQUEST_ERR); } }
                    if (!v.ok() && v.errs.size() > 1) return "";      // several violated preconditions at once: whether the tree is touched before the complaint is open
                    if (!v.ok() && (v.errs.count(refdom::HIERARCHY_REQUEST_ERR))) return "";      // (an implementation may detect it only after extracting)
                }
                VTRY(rv.x->surroundContents(B->x)); std::string e = judge("range.surroundContents", v, threw, got, forbidden); if (!e.empty() || !v.ok()) return e;
                // extract, insert newParent at the start, move the extracted content into it, select it
                DOMNode* bx = B->x;      // (B points into the slot table, which grows below)
                Node* fr = R.contents(0); Node* sc = R.s.c; size_t so = R.s.o; bool text = sc->type == refdom::TEXT || sc->type == refdom::CDATA;
                if (text) { Node* tail = so > 0 ? w.m.splitText(sc, so) : nullptr; w.m.doInsert(sc->parent, b, tail ? tail : sc); if (tail && !pairTail(tail)) return "view:range-insert|surroundContents inside a Text node did not split it"; }
                else { Node* ref = so < sc->kids.size() ? sc->kids[so] : nullptr; if (ref != b) w.m.doInsert(sc, b, ref); }      // newParent already sits right behind the extracted content: "insert it in front of itself" moves nothing
                w.m.doInsert(b, fr, nullptr); R.selectNode(b);
                { std::string why; if (!pairNew(b, bx, why)) return "view:range-contents|the content moved into newParent by surroundContents differs from the reference: " + why; }
                // the fragment object xerces-c used internally is not visible: the model's fragment node stays unpaired and is never picked
                return "";
            }
            return "";
        }
#undef VTRY
        handled = false; return "";
    }
};
