// schemagen: seeded generator of XML Schema documents (most component kinds) and of instance documents for them.
// Used by poolsim (C16), whose oracle is differential (original pool vs. restored pool), so the generator only has to be
// diverse, not right: instances are "mostly valid" with seeded deviations, so that both verdicts and error paths occur.
#pragma once
#include "rng.hpp"
#include <string>
#include <vector>
#include <map>

namespace sim {

struct SgSimple { std::string name; std::vector<std::string> good, bad; bool list = false; };      // a simple type (built-in or generated) with sample lexical values
struct SgAttr { std::string name; int type; int use; std::string fixedOrDefault; bool isFixed = false; bool global = false; };     // type = index into simples
struct SgPart { int kind = 0; int elem = -1; std::string localName; int type = -1; bool typeIsComplex = false; int minO = 1, maxO = 1; };     // kind 0 local element, 1 ref to a global element, 2 wildcard
struct SgComplex { std::string name; int compositor = 0; bool mixed = false; bool abstract_ = false; std::vector<SgPart> parts; std::vector<SgAttr> attrs; int base = -1; bool byRestriction = false; int simpleBase = -1; bool anyAttr = false; std::string block, final_; };
struct SgElem { std::string name; int type = -1; bool typeIsComplex = false; bool nillable = false; bool abstract_ = false; int substFor = -1; std::string fixedOrDefault; bool isFixed = false; bool hasKey = false; };

struct GenSchema {
    std::string ns, prefix, file, text; bool qualified = true;
    std::vector<SgSimple> simples; size_t builtins = 0; std::vector<SgComplex> complexes; std::vector<SgElem> elems; std::vector<SgAttr> globalAttrs;
    std::map<std::string, int> kinds;        // component kinds that occur (reach probes)
};

class SchemaGen {
public:
    SchemaGen(Rng r) : rng(r) {}
    Rng rng;

    static void builtinTable(std::vector<SgSimple>& v) {
        auto add = [&](const char* n, std::vector<std::string> g, std::vector<std::string> b, bool list = false) { SgSimple s; s.name = std::string("xs:") + n; s.good = g; s.bad = b; s.list = list; v.push_back(s); };
        add("string", { "abc", "x y", "" }, {}); add("token", { "abc", "a b" }, {}); add("integer", { "12", "-3", "0" }, { "1.5", "abc" }); add("decimal", { "1.5", "-20", "3.25" }, { "1e3", "x" });
        add("date", { "2020-01-31", "1999-12-01Z" }, { "2020-13-01", "yesterday" }); add("boolean", { "true", "0" }, { "yes" }); add("NMTOKEN", { "a.b", "x-1" }, { "a b" }); add("anyURI", { "http://x/y", "a/b" }, {});
        add("double", { "1e3", "NaN", "-0.5" }, { "x" }); add("hexBinary", { "0AFF", "" }, { "0AF", "zz" }); add("positiveInteger", { "7", "100" }, { "0", "-1" }); add("NMTOKENS", { "a b", "x" }, { "" }, true);
        add("dateTime", { "2020-01-31T10:00:00", "2001-10-26T21:32:52+02:00" }, { "2020-01-31" }); add("language", { "en", "de-AT" }, { "e n" }); add("ID", { "id1", "id2", "id3" }, { "1x" }); add("IDREF", { "id1", "id2" }, { "1x" });
        add("base64Binary", { "QUJD", "" }, { "Q" }); add("duration", { "P1D", "PT2H" }, { "1D" }); add("QName", { "xs:a", "b" }, { "1:b" }); add("float", { "1.5", "INF" }, { "x" });
    }

    std::string pick(const std::vector<std::string>& v) { return v.empty() ? std::string("v") : v[rng.below(v.size())]; }
    static std::string esc(const std::string& s) { std::string o; for (char c : s) { if (c == '<') o += "&lt;"; else if (c == '&') o += "&amp;"; else if (c == '"') o += "&quot;"; else o += c; } return o; }

    // ------------------------------------------------------------------ schema
    GenSchema make(int index, const GenSchema* importable) {
        GenSchema g; g.prefix = "t" + std::to_string(index); g.ns = rng.chance(1, 8) ? "" : "urn:gen:" + g.prefix; g.file = "s" + std::to_string(index) + ".xsd"; g.qualified = rng.chance(3, 4);
        builtinTable(g.simples); g.builtins = g.simples.size();
        std::string& t = g.text; bool tns = !g.ns.empty(); std::string P = tns ? g.prefix + ":" : "";
        t += "<?xml version=\"1.0\"?>\n<xs:schema xmlns:xs=\"http://www.w3.org/2001/XMLSchema\""; if (tns) t += " targetNamespace=\"" + g.ns + "\" xmlns:" + g.prefix + "=\"" + g.ns + "\"";
        bool imp = importable && !importable->ns.empty() && importable->ns != g.ns && rng.chance(1, 2); if (imp) t += " xmlns:" + importable->prefix + "=\"" + importable->ns + "\"";
        if (g.qualified) t += " elementFormDefault=\"qualified\""; if (rng.chance(1, 6)) t += " attributeFormDefault=\"qualified\"";
        static const char* bd[] = { "extension", "restriction", "substitution", "#all", "extension restriction" };
        if (rng.chance(1, 6)) { t += std::string(" blockDefault=\"") + bd[rng.below(5)] + "\""; g.kinds["blockDefault"]++; } if (rng.chance(1, 6)) { t += std::string(" finalDefault=\"") + bd[rng.below(2)] + "\""; g.kinds["finalDefault"]++; }
        t += ">\n";
        if (rng.chance(1, 3)) { t += " <xs:annotation><xs:documentation xml:lang=\"en\">generated " + g.prefix + " &amp; co</xs:documentation><xs:appinfo source=\"urn:app\"><x y=\"1\"/></xs:appinfo></xs:annotation>\n"; g.kinds["annotation"]++; }
        if (imp) { t += " <xs:import namespace=\"" + importable->ns + "\" schemaLocation=\"" + importable->file + "\"/>\n"; g.kinds["import"]++; }
        if (rng.chance(1, 4)) { t += " <xs:notation name=\"n" + std::to_string(index) + "\" public=\"-//gen//n\" system=\"viewer.exe\"/>\n"; g.kinds["notation"]++; }

        // ---- simple types
        int ns = rng.range(1, 5);
        for (int i = 0; i < ns; i++) {
            SgSimple s; s.name = "S" + std::to_string(i); int kind = (int)rng.below(8); size_t b = rng.below(g.builtins); const SgSimple& base = g.simples[b]; std::string fin = rng.chance(1, 8) ? " final=\"restriction\"" : "";
            t += " <xs:simpleType name=\"" + s.name + "\"" + fin + ">";
            if (kind == 4 && base.list) kind = 3;      // a list of lists is not allowed
            if (kind == 0 && base.good.size() >= 2 && !base.good[0].empty() && base.name != "xs:boolean") { t += "<xs:restriction base=\"" + base.name + "\">"; size_t n = 1 + rng.below(base.good.size()); for (size_t k = 0; k < n; k++) { t += "<xs:enumeration value=\"" + esc(base.good[k]) + "\"/>"; s.good.push_back(base.good[k]); } t += "</xs:restriction>"; s.bad = base.bad; s.bad.push_back("notListed"); g.kinds["facet:enumeration"]++; }
            else if (kind == 1) { const SgSimple& sb = g.simples[rng.below(2)];
                // pattern facets over the features of the regular-expression engine: classes, class subtraction, negation, categories and blocks,
                // \i \c \d \s \w, alternation, (nested) closures whose body can match the empty string, counted repeats
                struct Pat { const char* re; std::vector<std::string> good, bad; };
                static const std::vector<Pat> pats = {
                    { "[a-c]+", { "abc", "a", "cab" }, { "xyz", "" } },
                    { "[a-z-[bdfhjlnprtvx]]+", { "ace", "gikmoq", "zzz" }, { "b", "abd", "" } },
                    { "([a-z]?-?)*|x+", { "a-b", "xx", "", "ab--c" }, { "A", "x1" } },
                    { "\\p{Lu}\\p{Ll}*(\\s\\p{Lu}\\p{Ll}*)?", { "Ab", "Ab Cd", "X" }, { "ab", "AB" } },
                    { "\\i\\c*", { "a.b", "_x-1", "q" }, { "1a", "" } },
                    { "(ab|a)(bc|c)?d{2,}", { "abdd", "abcdd", "acdd", "addd" }, { "abd", "dd" } },
                    { "[^\\d\\s]{2,4}", { "ab", "a-b_" }, { "a1", "a", "abcde" } },
                    { "(x*)*y", { "y", "xxy" }, { "x", "yy" } },
                    { "[\\-+]?[0-9]+(\\.[0-9]*)?", { "-1.5", "42", "+7." }, { "1e", ".5" } },
                    { "[\\w-[aeiou]]+|\\P{IsBasicLatin}+", { "bcd", "xyz9" }, { "a e", "-" } },
                    { "((a|b)*c|(a|b)*d)+", { "abac", "cd", "bbd" }, { "ab", "e" } },
                    { "[\\p{L}-[\\p{Lu}]]{1,5}", { "abc", "q" }, { "Abc", "abcdef" } } };
                const Pat& pt = pats[rng.below(pats.size())];
                t += "<xs:restriction base=\"" + sb.name + "\"><xs:pattern value=\"" + std::string(pt.re) + "\"/>" + (rng.coin() ? "<xs:pattern value=\"x\\d{1,3}\"/>" : "") + "</xs:restriction>"; s.good = pt.good; s.bad = pt.bad; g.kinds["facet:pattern"]++; }
            else if (kind == 2) { const SgSimple& sb = g.simples[rng.below(2)]; int lo = rng.range(0, 2), hi = lo + rng.range(1, 4); t += "<xs:restriction base=\"" + sb.name + "\">" + (rng.chance(1, 3) ? "<xs:length value=\"" + std::to_string(hi) + "\"/>" : "<xs:minLength value=\"" + std::to_string(lo) + "\"/><xs:maxLength value=\"" + std::to_string(hi) + "\"/>") + (rng.chance(1, 3) ? "<xs:whiteSpace value=\"collapse\"/>" : "") + "</xs:restriction>"; s.good = { std::string((size_t)hi, 'k') }; s.bad = { std::string((size_t)hi + 3, 'k') }; g.kinds["facet:length"]++; }
            else if (kind == 3) { bool dec = rng.coin(); t += std::string("<xs:restriction base=\"") + (dec ? "xs:decimal" : "xs:integer") + "\">" + (rng.coin() ? "<xs:minInclusive value=\"0\"/><xs:maxInclusive value=\"100\"/>" : "<xs:minExclusive value=\"-1\"/><xs:maxExclusive value=\"1000\"/>") + (rng.chance(1, 3) ? "<xs:totalDigits value=\"3\"/>" : "") + (dec && rng.chance(1, 2) ? "<xs:fractionDigits value=\"1\"/>" : "") + "</xs:restriction>"; s.good = { "5", "42", "100" }; s.bad = { "-7", "123456", "x" }; if (dec) s.good.push_back("1.5"); g.kinds["facet:range"]++; }
            else if (kind == 4) { t += "<xs:list itemType=\"" + base.name + "\"/>"; s.good = { pick(base.good) + " " + pick(base.good), pick(base.good) }; s.bad = base.bad; s.list = true; g.kinds["list"]++; }
            else if (kind == 5) { const SgSimple& b2 = g.simples[rng.below(g.builtins)]; t += "<xs:union memberTypes=\"" + base.name + " " + b2.name + "\"/>"; s.good = base.good; for (auto& x : b2.good) s.good.push_back(x); s.bad = { }; g.kinds["union"]++; }
            else if (kind == 6 && i > 0) { const SgSimple& prev = g.simples[g.builtins + (size_t)rng.below((uint64_t)i)]; t += "<xs:restriction base=\"" + prev.name + "\"/>"; s.good = prev.good; s.bad = prev.bad; s.list = prev.list; g.kinds["simple-derived-from-user"]++; }
            else { t += "<xs:restriction base=\"xs:date\"><xs:minInclusive value=\"2000-01-01\"/></xs:restriction>"; s.good = { "2020-01-31" }; s.bad = { "1999-01-01", "x" }; g.kinds["facet:date-range"]++; }
            t += "</xs:simpleType>\n"; if (s.good.empty()) s.good.push_back("v"); SgSimple named = s; named.name = P + s.name; g.simples.push_back(named); g.kinds["simpleType"]++;
        }
        auto anySimple = [&]() { return (int)rng.below(g.simples.size()); };
        auto idLike = [&](int type) { const SgSimple& s = g.simples[(size_t)type]; return s.name.find("ID") != std::string::npos || (!s.good.empty() && s.good[0].rfind("id", 0) == 0); };      // ID-typed declarations cannot have value constraints
        auto attrDecl = [&](const SgAttr& a, bool top) { std::string s = "<xs:attribute name=\"" + a.name + "\" type=\"" + g.simples[(size_t)a.type].name + "\""; if (!top) { if (a.use == 1) s += " use=\"required\""; else if (a.use == 2) s += " use=\"prohibited\""; } if (!a.fixedOrDefault.empty() && a.use != 1 && a.use != 2) s += std::string(a.isFixed ? " fixed=\"" : " default=\"") + esc(a.fixedOrDefault) + "\""; return s + "/>"; };
        // ---- global attributes and an attribute group
        int nga = (int)rng.below(3); for (int i = 0; i < nga; i++) { SgAttr a; a.name = "ga" + std::to_string(i); a.type = anySimple(); a.use = 0; a.global = true; if (rng.chance(1, 3) && !idLike(a.type)) { a.fixedOrDefault = pick(g.simples[(size_t)a.type].good); a.isFixed = rng.coin(); } if (a.fixedOrDefault.empty()) a.isFixed = false; t += " " + attrDecl(a, true) + "\n"; g.globalAttrs.push_back(a); g.kinds["global-attribute"]++; }
        bool haveAG = rng.chance(1, 3); if (haveAG) { t += " <xs:attributeGroup name=\"AG\"><xs:attribute name=\"agA\" type=\"xs:integer\" default=\"7\"/><xs:attribute name=\"agB\" type=\"xs:token\"/></xs:attributeGroup>\n"; g.kinds["attributeGroup"]++; }
        bool haveMG = rng.chance(1, 3); if (haveMG) { t += " <xs:group name=\"MG\"><xs:sequence><xs:element name=\"mg1\" type=\"xs:string\"/><xs:element name=\"mg2\" type=\"xs:integer\" minOccurs=\"0\"/></xs:sequence></xs:group>\n"; g.kinds["model-group-definition"]++; }

        // ---- complex types
        int nc = rng.range(1, 5);
        for (int i = 0; i < nc; i++) {
            SgComplex c; c.name = "C" + std::to_string(i); int kind = (int)rng.below(10);
            if (rng.chance(1, 4)) { c.block = bd[rng.below(5)]; if (c.block == "substitution") c.block = "extension"; g.kinds["complexType-block"]++; } if (rng.chance(1, 4)) { c.final_ = bd[rng.below(2)]; g.kinds["complexType-final"]++; } c.abstract_ = rng.chance(1, 10); c.mixed = rng.chance(1, 6);
            int na = (int)rng.below(3); for (int k = 0; k < na; k++) { SgAttr a; a.name = "a" + std::to_string(k); a.type = anySimple(); a.use = rng.chance(1, 4) ? 1 : 0; if (k > 0 && idLike(a.type)) a.type = 0;      // (at most one ID attribute per type)
                if (rng.chance(1, 3) && !idLike(a.type)) { a.fixedOrDefault = pick(g.simples[(size_t)a.type].good); a.isFixed = rng.coin(); } c.attrs.push_back(a); }
            c.anyAttr = rng.chance(1, 8);
            std::string head = " <xs:complexType name=\"" + c.name + "\"" + (c.mixed ? " mixed=\"true\"" : "") + (c.abstract_ ? " abstract=\"true\"" : "") + (c.block.empty() ? "" : " block=\"" + c.block + "\"") + (c.final_.empty() ? "" : " final=\"" + c.final_ + "\"") + ">";
            auto attrsText = [&]() { std::string s; for (auto& a : c.attrs) s += attrDecl(a, false); if (haveAG && rng.chance(1, 3)) s += "<xs:attributeGroup ref=\"" + P + "AG\"/>"; if (!g.globalAttrs.empty() && rng.chance(1, 3)) s += "<xs:attribute ref=\"" + P + g.globalAttrs[0].name + "\"/>"; if (c.anyAttr) { s += "<xs:anyAttribute namespace=\"##other\" processContents=\"lax\"/>"; g.kinds["anyAttribute"]++; } return s; };
            std::string localPfx = "e";      // local element names; an extension uses names of its own so that the effective content model stays consistent and deterministic
            auto particles = [&](int n) { std::string s; for (int k = 0; k < n; k++) { SgPart p; int pk = (int)rng.below(10);
                    if (pk < 6 || g.elems.empty()) { p.kind = 0; p.localName = localPfx + std::to_string(k); if (i > 0 && rng.chance(1, 3)) { p.type = (int)rng.below((uint64_t)i); p.typeIsComplex = true; } else p.type = anySimple(); }
                    else if (pk < 8) { p.kind = 1; p.elem = (int)rng.below(g.elems.size()); }
                    else { p.kind = 2; }
                    if (c.compositor != 2) { p.minO = rng.chance(1, 3) ? 0 : 1; p.maxO = rng.chance(1, 4) ? (rng.coin() ? -1 : 3) : 1; if (p.maxO != -1 && p.maxO < p.minO) p.maxO = p.minO; } else { p.minO = rng.chance(1, 3) ? 0 : 1; p.maxO = 1; if (p.kind == 2) { p.kind = 0; p.localName = localPfx + std::to_string(k); p.type = anySimple(); } }
                    std::string occ = (p.minO != 1 ? " minOccurs=\"" + std::to_string(p.minO) + "\"" : "") + (p.maxO != 1 ? std::string(" maxOccurs=\"") + (p.maxO < 0 ? "unbounded" : std::to_string(p.maxO)) + "\"" : "");
                    if (p.kind == 0) s += "<xs:element name=\"" + p.localName + "\" type=\"" + (p.typeIsComplex ? P + g.complexes[(size_t)p.type].name : g.simples[(size_t)p.type].name) + "\"" + occ + (rng.chance(1, 8) && !p.typeIsComplex ? " nillable=\"true\"" : "") + "/>";
                    else if (p.kind == 1) s += "<xs:element ref=\"" + P + g.elems[(size_t)p.elem].name + "\"" + occ + "/>";
                    else { static const char* nsv[] = { "##any", "##other", "##targetNamespace", "urn:x urn:y ##local" }; static const char* pc[] = { "lax", "skip", "strict" }; s += std::string("<xs:any namespace=\"") + nsv[rng.below(4)] + "\" processContents=\"" + pc[rng.below(3)] + "\"" + occ + "/>"; g.kinds["wildcard"]++; }
                    c.parts.push_back(p); }
                if (haveMG && rng.chance(1, 4) && c.compositor != 2) { s += "<xs:group ref=\"" + P + "MG\" minOccurs=\"0\"/>"; g.kinds["group-ref"]++; }
                return s; };
            static const char* comp[] = { "sequence", "choice", "all" };
            if (kind < 5) { c.compositor = (int)rng.below(3); std::string body = particles(rng.range(0, 4)); t += head + "<xs:" + comp[c.compositor] + ">" + body + "</xs:" + comp[c.compositor] + ">" + attrsText() + "</xs:complexType>\n"; g.kinds[std::string("complexType-") + comp[c.compositor]]++; }
            else if (kind == 5) { c.simpleBase = anySimple(); t += head + "<xs:simpleContent><xs:extension base=\"" + g.simples[(size_t)c.simpleBase].name + "\">" + attrsText() + "</xs:extension></xs:simpleContent></xs:complexType>\n"; g.kinds["simpleContent-extension"]++; }
            else if (kind < 9 && i > 0 && g.complexes[(size_t)(c.base = (int)rng.below((uint64_t)i))].final_.empty() && !g.kinds.count("finalDefault")) { const SgComplex& b = g.complexes[(size_t)c.base];
                if (b.simpleBase < 0 && c.mixed != b.mixed) { c.mixed = b.mixed; size_t mp = head.find(" mixed=\"true\""); if (mp != std::string::npos) head.erase(mp, 13); if (c.mixed) head.insert(head.find(" name="), " mixed=\"true\""); }      // base and derived type must agree on mixed
                if (b.simpleBase >= 0) { c.simpleBase = b.simpleBase; t += head + "<xs:simpleContent><xs:extension base=\"" + P + b.name + "\"><xs:attribute name=\"xa\" type=\"xs:string\"/></xs:extension></xs:simpleContent></xs:complexType>\n"; g.kinds["simpleContent-extension-of-complex"]++; }
                else if (kind == 8 || b.compositor == 2) { c.byRestriction = true; c.compositor = b.compositor; c.parts = b.parts; c.attrs.clear(); c.anyAttr = false; std::string body; for (auto& p : c.parts) { std::string occ = (p.minO != 1 ? " minOccurs=\"" + std::to_string(p.minO) + "\"" : "") + (p.maxO != 1 ? std::string(" maxOccurs=\"") + (p.maxO < 0 ? "unbounded" : std::to_string(p.maxO)) + "\"" : ""); if (p.kind == 0) body += "<xs:element name=\"" + p.localName + "\" type=\"" + (p.typeIsComplex ? P + g.complexes[(size_t)p.type].name : g.simples[(size_t)p.type].name) + "\"" + occ + "/>"; else if (p.kind == 1) body += "<xs:element ref=\"" + P + g.elems[(size_t)p.elem].name + "\"" + occ + "/>"; else body += "<xs:any namespace=\"##any\" processContents=\"lax\"" + occ + "/>"; }
                    t += head + "<xs:complexContent><xs:restriction base=\"" + P + b.name + "\"><xs:" + comp[c.compositor] + ">" + body + "</xs:" + comp[c.compositor] + "></xs:restriction></xs:complexContent></xs:complexType>\n"; g.kinds["complexContent-restriction"]++; }
                else { c.compositor = 0; localPfx = "x" + std::to_string(i) + "e"; std::string body = rng.chance(1, 12) ? std::string("<xs:element name=\"e0\" type=\"xs:string\"/>") : particles(rng.range(0, 2)); std::vector<SgPart> own = c.parts; c.parts = b.parts; for (auto& p : own) c.parts.push_back(p);
                    for (size_t k = 0; k < c.attrs.size(); k++) c.attrs[k].name = "x" + std::to_string(i) + "a" + std::to_string(k); std::string own_attrs = attrsText(); for (const char* refd : { "<xs:attributeGroup ref=", "<xs:attribute ref=" }) { size_t w = own_attrs.find(refd); if (w != std::string::npos) own_attrs.erase(w, own_attrs.find("/>", w) + 2 - w); }      // (the base may refer to them already)
                    if (b.anyAttr) { size_t w = own_attrs.find("<xs:anyAttribute"); if (w != std::string::npos) own_attrs.erase(w); } for (auto& a : b.attrs) c.attrs.push_back(a); c.anyAttr = c.anyAttr || b.anyAttr;
                    t += head + "<xs:complexContent><xs:extension base=\"" + P + b.name + "\"><xs:sequence>" + body + "</xs:sequence>" + own_attrs + "</xs:extension></xs:complexContent></xs:complexType>\n"; c.compositor = b.compositor == 1 ? 0 : b.compositor; g.kinds["complexContent-extension"]++; } }
            else { c.compositor = 0; c.base = -1; t += head + attrsText() + "</xs:complexType>\n"; g.kinds["complexType-empty"]++; }
            g.complexes.push_back(c); g.kinds["complexType"]++;
        }
        // ---- global elements
        int ne = rng.range(1, 5);
        for (int i = 0; i < ne; i++) {
            SgElem e; e.name = "E" + std::to_string(i); if (rng.chance(2, 3)) { e.type = (int)rng.below(g.complexes.size()); e.typeIsComplex = true; } else e.type = anySimple();
            e.nillable = rng.chance(1, 6); e.abstract_ = rng.chance(1, 10);
            if (i > 0 && rng.chance(1, 3)) { e.substFor = (int)rng.below((uint64_t)i); e.type = g.elems[(size_t)e.substFor].type; e.typeIsComplex = g.elems[(size_t)e.substFor].typeIsComplex; g.kinds["substitutionGroup"]++; }
            if (!e.typeIsComplex && rng.chance(1, 4) && !idLike(e.type)) { e.fixedOrDefault = pick(g.simples[(size_t)e.type].good); e.isFixed = rng.coin(); if (e.fixedOrDefault.empty()) e.isFixed = false; }
            std::string s = " <xs:element name=\"" + e.name + "\" type=\"" + (e.typeIsComplex ? P + g.complexes[(size_t)e.type].name : g.simples[(size_t)e.type].name) + "\"" + (e.nillable ? " nillable=\"true\"" : "") + (e.abstract_ ? " abstract=\"true\"" : "") + (e.substFor >= 0 ? " substitutionGroup=\"" + P + g.elems[(size_t)e.substFor].name + "\"" : "");
            if (!e.fixedOrDefault.empty()) s += std::string(e.isFixed ? " fixed=\"" : " default=\"") + esc(e.fixedOrDefault) + "\"";
            if (rng.chance(1, 6)) { s += std::string(" block=\"") + bd[rng.below(5)] + "\""; g.kinds["element-block"]++; } if (rng.chance(1, 8)) { s += std::string(" final=\"") + bd[rng.below(2)] + "\""; g.kinds["element-final"]++; }
            // identity constraints on complex elements that have a local child e0 / attribute a0
            bool ic = e.typeIsComplex && rng.chance(1, 3) && !g.complexes[(size_t)e.type].parts.empty() && g.complexes[(size_t)e.type].parts[0].kind == 0;
            if (ic) { std::string q = (g.qualified && tns) ? P : ""; int k = (int)rng.below(3); s += ">"; std::string nm = "K" + std::to_string(i);
                if (k == 0) s += "<xs:unique name=\"" + nm + "\"><xs:selector xpath=\"" + q + "e0\"/><xs:field xpath=\".\"/></xs:unique>";
                else if (k == 1) s += "<xs:key name=\"" + nm + "\"><xs:selector xpath=\".//" + q + "e0\"/><xs:field xpath=\"@a0\"/></xs:key>";
                else s += "<xs:key name=\"" + nm + "\"><xs:selector xpath=\"" + q + "e0\"/><xs:field xpath=\".\"/></xs:key><xs:keyref name=\"" + nm + "r\" refer=\"" + P + nm + "\"><xs:selector xpath=\"" + q + "e1|" + q + "e2\"/><xs:field xpath=\".\"/></xs:keyref>";
                s += "</xs:element>\n"; e.hasKey = true; g.kinds["identity-constraint"]++; }
            else s += "/>\n";
            t += s; g.elems.push_back(e); g.kinds["global-element"]++;
        }
        // one global element per user-defined simple type (vS0, vS1 ...): lets an instance put any value straight under any generated type
        for (size_t k = g.builtins; k < g.simples.size(); k++) { SgElem e; e.name = "v" + g.simples[k].name.substr(g.simples[k].name.find('S')); e.type = (int)k; t += " <xs:element name=\"" + e.name + "\" type=\"" + g.simples[k].name + "\"/>\n"; g.elems.push_back(e); }
        t += "</xs:schema>\n";
        if (rng.chance(1, 40)) { size_t at = rng.below(t.size()); t.erase(at, 1 + rng.below(4)); g.kinds["schema-damaged"]++; }      // now and then a schema that does not load cleanly
        return g;
    }

    // ------------------------------------------------------------------ instances
    std::string value(const GenSchema& g, int type) { const SgSimple& s = g.simples[(size_t)type]; if (!s.bad.empty() && rng.chance(1, 7)) return pick(s.bad); return pick(s.good); }
    void attrs(const GenSchema& g, const SgComplex& c, std::string& out) {
        for (auto& a : c.attrs) { if (a.use == 2) continue; if (a.use == 1 ? !rng.chance(1, 10) : rng.chance(1, 2)) out += " " + a.name + "=\"" + esc(a.isFixed && !rng.chance(1, 6) ? a.fixedOrDefault : value(g, a.type)) + "\""; }
        if (rng.chance(1, 12)) out += " bogus=\"1\""; if (c.anyAttr && rng.chance(1, 2)) out += " o:x=\"1\"";
    }
    void element(const GenSchema& g, const std::string& qname, int type, bool complex, int depth, std::string& out, bool nillable) {
        out += "<" + qname;
        if (nillable && rng.chance(1, 3)) { out += " xsi:nil=\"true\"/>"; return; }
        if (!complex) { if (rng.chance(1, 6)) out += " xsi:type=\"xs:string\"";      // (an xsi:type on a simple-typed element: allowed or not, it goes through the xsi:type machinery of scanner and validator)
            out += ">" + esc(rng.chance(1, 10) ? "" : value(g, type)) + "</" + qname + ">"; return; }
        const SgComplex* c = &g.complexes[(size_t)type];
        // xsi:type with a type derived from the declared one (exercises block / final / abstract)
        if (rng.chance(1, 5)) for (size_t k = 0; k < g.complexes.size(); k++) if (g.complexes[k].base == type && rng.coin()) { out += " xsi:type=\"" + (g.ns.empty() ? std::string() : g.prefix + ":") + g.complexes[k].name + "\""; c = &g.complexes[k]; break; }
        attrs(g, *c, out); out += ">";
        if (c->simpleBase >= 0) { out += esc(value(g, c->simpleBase)); }
        else if (depth < 4) {
            std::string q = (g.qualified && !g.ns.empty()) ? g.prefix + ":" : "";
            std::vector<const SgPart*> order; for (auto& p : c->parts) order.push_back(&p);
            if (c->compositor == 1 && !order.empty()) { const SgPart* one = order[rng.below(order.size())]; order.assign(1, one); }
            if (c->compositor == 2 && order.size() > 1 && rng.coin()) std::swap(order[0], order[order.size() - 1]);
            for (auto p : order) { int n = p->minO; if (rng.chance(1, 3)) n = p->maxO < 0 ? p->minO + (int)rng.below(3) : p->minO + (int)rng.below((uint64_t)(p->maxO - p->minO + 1)); if (rng.chance(1, 12)) n++; if (rng.chance(1, 12) && n > 0) n--;
                for (int i = 0; i < n; i++) {
                    if (c->mixed && rng.coin()) out += "txt";
                    if (p->kind == 0) element(g, q + p->localName, p->type, p->typeIsComplex, depth + 1, out, false);
                    else if (p->kind == 1) { int ei = p->elem; for (size_t k = 0; k < g.elems.size(); k++) if (g.elems[k].substFor == ei && rng.chance(1, 3)) { ei = (int)k; break; } const SgElem& e = g.elems[(size_t)ei]; element(g, (g.ns.empty() ? std::string() : g.prefix + ":") + e.name, e.type, e.typeIsComplex, depth + 1, out, e.nillable); }
                    else out += rng.coin() ? std::string("<o:any xmlns:o=\"urn:other\" k=\"1\"") + (rng.chance(1, 3) ? " xsi:type=\"xs:string\"" : "") + ">w</o:any>" : std::string("<loose") + (rng.chance(1, 3) ? " xsi:type=\"xs:token\"" : "") + "/>";      // (elements a wildcard lets through, now and then with an xsi:type of their own)
                } }
        }
        if (c->mixed && rng.coin()) out += "tail";
        out += "</" + qname + ">";
    }
    std::string instance(const GenSchema& g) {
        if (g.elems.empty()) return "<none/>";
        const SgElem& e = g.elems[rng.below(g.elems.size())]; std::string q = (g.ns.empty() ? std::string() : g.prefix + ":") + e.name; std::string body; element(g, q, e.type, e.typeIsComplex, 0, body, e.nillable);
        // put the namespace declarations on the root
        size_t gt = body.find_first_of(" />", 1); std::string decl = " xmlns:xsi=\"http://www.w3.org/2001/XMLSchema-instance\" xmlns:o=\"urn:other\" xmlns:xs=\"http://www.w3.org/2001/XMLSchema\""; if (!g.ns.empty()) decl += " xmlns:" + g.prefix + "=\"" + g.ns + "\"";
        if (rng.chance(1, 4)) decl += g.ns.empty() ? " xsi:noNamespaceSchemaLocation=\"" + g.file + "\"" : " xsi:schemaLocation=\"" + g.ns + " " + g.file + "\"";
        body.insert(gt, decl); return "<?xml version=\"1.0\"?>\n" + body + "\n";
    }
};

} // namespace sim
