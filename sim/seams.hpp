// Simulated environment: streams, input sources, file system, network, memory manager.
// All of these are harness-side implementations of existing xerces-c interfaces (no /repo hook).
#pragma once
#include "kernel.hpp"
#include <xercesc/util/PlatformUtils.hpp>
#include <xercesc/util/BinInputStream.hpp>
#include <xercesc/util/XMLFileMgr.hpp>
#include <xercesc/util/XMLNetAccessor.hpp>
#include <xercesc/util/XMLURL.hpp>
#include <xercesc/util/XMLString.hpp>
#include <xercesc/util/XMLExceptMsgs.hpp>
#include <xercesc/util/OutOfMemoryException.hpp>
#include <xercesc/util/IOException.hpp>
#include <xercesc/util/RuntimeException.hpp>
#include <xercesc/framework/MemoryManager.hpp>
#include <xercesc/sax/InputSource.hpp>
#include <unordered_map>
#include <memory>

namespace sim {
using namespace XERCES_CPP_NAMESPACE;

// ---------- string helpers that do not go through xerces transcoders
inline void u8append(std::string& o, uint32_t c) {
    if (c < 0x80) o += (char)c;
    else if (c < 0x800) { o += (char)(0xC0 | (c >> 6)); o += (char)(0x80 | (c & 0x3F)); }
    else if (c < 0x10000) { o += (char)(0xE0 | (c >> 12)); o += (char)(0x80 | ((c >> 6) & 0x3F)); o += (char)(0x80 | (c & 0x3F)); }
    else { o += (char)(0xF0 | (c >> 18)); o += (char)(0x80 | ((c >> 12) & 0x3F)); o += (char)(0x80 | ((c >> 6) & 0x3F)); o += (char)(0x80 | (c & 0x3F)); }
}
inline std::string u8(const XMLCh* s, size_t n) {
    std::string o; if (!s) return o;
    for (size_t i = 0; i < n; i++) {
        uint32_t c = s[i];
        if (c >= 0xD800 && c < 0xDC00 && i + 1 < n && s[i + 1] >= 0xDC00 && s[i + 1] < 0xE000) { c = 0x10000 + ((c - 0xD800) << 10) + (s[i + 1] - 0xDC00); i++; }
        u8append(o, c);
    }
    return o;
}
inline std::string u8(const XMLCh* s) { if (!s) return "(null)"; size_t n = 0; while (s[n]) n++; return u8(s, n); }
// printable: escapes control chars so dumps are line oriented
inline std::string esc8(const std::string& s) {
    std::string o; for (unsigned char c : s) { if (c == '\n') o += "\\n"; else if (c == '\r') o += "\\r"; else if (c == '\t') o += "\\t"; else if (c == '\\') o += "\\\\"; else if (c < 0x20) { char b[8]; snprintf(b, sizeof b, "\\x%02x", c); o += b; } else o += (char)c; }
    return o;
}
inline std::string pu8(const XMLCh* s) { return s ? esc8(u8(s)) : std::string("(null)"); }
inline std::u16string X(const std::string& utf8) {
    std::u16string o; size_t i = 0, n = utf8.size();
    while (i < n) {
        unsigned char c = (unsigned char)utf8[i]; uint32_t cp; int len;
        if (c < 0x80) { cp = c; len = 1; } else if ((c >> 5) == 6) { cp = c & 0x1F; len = 2; } else if ((c >> 4) == 14) { cp = c & 0x0F; len = 3; } else { cp = c & 0x07; len = 4; }
        for (int k = 1; k < len && i + k < n; k++) cp = (cp << 6) | ((unsigned char)utf8[i + k] & 0x3F);
        i += (size_t)len;
        if (cp >= 0x10000) { cp -= 0x10000; o += (char16_t)(0xD800 + (cp >> 10)); o += (char16_t)(0xDC00 + (cp & 0x3FF)); } else o += (char16_t)cp;
    }
    return o;
}
inline const XMLCh* xc(const std::u16string& s) { return (const XMLCh*)s.c_str(); }

// ---------- chunk schedule: sizes consumed in order, then `rest` for every further read
struct Schedule {
    std::vector<uint32_t> sizes; uint32_t rest = 1u << 30;
    static Schedule fromJson(const Json& j) { Schedule s; if (j.t == Json::OBJ) { for (auto& x : j.at("sizes").a) s.sizes.push_back((uint32_t)std::max<int64_t>(1, x.i64())); s.rest = (uint32_t)std::max<int64_t>(1, j.geti("rest", 1 << 30)); } return s; }
    Json toJson() const { Json j = Json::obj(); Json a = Json::arr(); for (auto v : sizes) a.push((long long)v); j.set("sizes", a); j.set("rest", (long long)rest); return j; }
    bool oneShot() const { return sizes.empty() && rest >= (1u << 20); }
};

// ---------- stream faults
struct StreamFaults {
    int64_t truncateAt = -1;     // EOF at this byte offset
    int64_t throwAtRead = -1;    // n-th read (1-based) throws
    static StreamFaults fromJson(const Json& j) { StreamFaults f; if (j.t == Json::OBJ) { f.truncateAt = j.geti("truncate_at", -1); f.throwAtRead = j.geti("throw_at_read", -1); } return f; }
    Json toJson() const { Json j = Json::obj(); if (truncateAt >= 0) j.set("truncate_at", (long long)truncateAt); if (throwAtRead >= 0) j.set("throw_at_read", (long long)throwAtRead); return j; }
    bool any() const { return truncateAt >= 0 || throwAtRead >= 0; }
};

struct ByteView { const char* p = nullptr; size_t n = 0; ByteView() {} ByteView(const char* pp, size_t nn) : p(pp), n(nn) {} size_t size() const { return n; } const char* data() const { return p; } void resize(size_t k) { if (k < n) n = k; } };
struct StreamStats { uint64_t opened = 0, closed = 0; };
extern StreamStats g_streamStats;
extern std::map<int, std::vector<size_t>>* g_boundarySink;   // when set: offsets at which reads ended, per resource id

class SimStream : public BinInputStream {
public:
    // `data` is NOT copied: the caller keeps the bytes alive for as long as the stream exists (all engines hold the world for the whole run)
    SimStream(int id, const std::string& data, const Schedule& s, const StreamFaults& f, MemoryManager* mm = XMLPlatformUtils::fgMemoryManager)
        : fId(id), fData(data.data(), data.size()), fSched(s), fFaults(f), fMM(mm) {
        if (fFaults.truncateAt >= 0 && (size_t)fFaults.truncateAt < fData.size()) { fData.resize((size_t)fFaults.truncateAt); g_run.fault("truncate"); }
        if (!Run::quiet()) g_streamStats.opened++; g_run.ev("stream_open", (uint64_t)id, fData.size());
    }
    ~SimStream() { if (!Run::quiet()) g_streamStats.closed++; }
    XMLFilePos curPos() const override { return fPos; }
    XMLSize_t readBytes(XMLByte* const toFill, const XMLSize_t maxToRead) override {
        g_run.tick(); fReads++;
        if (fFaults.throwAtRead >= 0 && fReads == (uint64_t)fFaults.throwAtRead) {
            g_run.fault("stream_throw"); g_run.ev("stream_throw", (uint64_t)fId, fReads);
            ThrowXMLwithMemMgr(XMLPlatformUtilsException, XMLExcepts::File_CouldNotReadFromFile, fMM);
        }
        size_t want = fNext < fSched.sizes.size() ? fSched.sizes[fNext++] : fSched.rest;
        size_t left = fData.size() - fPos;
        size_t n = std::min(std::min(want, (size_t)maxToRead), left);
        if (n < left && n < maxToRead) g_run.fault("short_read");
        if (n == 1 && left > 1) g_run.fault("one_byte_read");
        memcpy(toFill, fData.data() + fPos, n); fPos += n;
        g_run.ev("read", (uint64_t)fId, n);
        if (g_boundarySink) (*g_boundarySink)[fId].push_back(fPos);
        return n;
    }
    const XMLCh* getContentType() const override { return 0; }
private:
    int fId; ByteView fData; Schedule fSched; StreamFaults fFaults; MemoryManager* fMM;
    size_t fPos = 0, fNext = 0; uint64_t fReads = 0;
};

class SimInputSource : public InputSource {
public:
    SimInputSource(int id, const std::string& data, const Schedule& s, const StreamFaults& f, const XMLCh* sysId, MemoryManager* mm = XMLPlatformUtils::fgMemoryManager)
        : InputSource(sysId, mm), fId(id), fData(&data), fSched(s), fFaults(f), fMM(mm) {}
    BinInputStream* makeStream() const override { return new (fMM) SimStream(fId, *fData, fSched, fFaults, fMM); }
private:
    int fId; const std::string* fData; Schedule fSched; StreamFaults fFaults; MemoryManager* fMM;
};

#if defined(__has_feature)
#if __has_feature(address_sanitizer)
#define SIM_HAS_ASAN 1
#endif
#endif
#ifdef SIM_HAS_ASAN
extern "C" void __asan_poison_memory_region(void const volatile* addr, size_t size);
extern "C" void __asan_unpoison_memory_region(void const volatile* addr, size_t size);
#define SIM_POISON(p, n) __asan_poison_memory_region((p), (n))
#define SIM_UNPOISON(p, n) __asan_unpoison_memory_region((p), (n))
#else
#define SIM_POISON(p, n) ((void)0)
#define SIM_UNPOISON(p, n) ((void)0)
#endif

extern "C" void __sanitizer_print_stack_trace();
extern "C" void __sanitizer_symbolize_pc(void* pc, const char* fmt, char* out_buf, size_t out_buf_size);
inline void simPrintStack() { __sanitizer_print_stack_trace(); }

// Process-wide pool of big raw blocks (>= 64 KB, rounded to 4 KB). See CachingGlobalMM below for why.
struct BigPool {
    static const size_t kBig = 65536;
    static std::map<size_t, std::vector<void*>>& freeLists() { static std::map<size_t, std::vector<void*>> m; return m; }
    static size_t capOf(size_t size) { return (size + 4095) & ~(size_t)4095; }
    static void* get(size_t size) { size_t cap = capOf(size); auto& fl = freeLists()[cap]; void* p; if (!fl.empty()) { p = fl.back(); fl.pop_back(); } else { p = malloc(cap); if (!p) return nullptr; } SIM_UNPOISON(p, size); SIM_POISON((char*)p + size, cap - size); return p; }
    static void put(void* p, size_t size) { size_t cap = capOf(size); auto& fl = freeLists()[cap]; if (fl.size() >= 16) { SIM_UNPOISON(p, cap); free(p); return; } SIM_POISON(p, cap); fl.push_back(p); }
};

// ---------- memory manager with ledger
struct MemViolation { std::string kind; uint64_t allocNo; size_t size; };

class SimMemoryManager : public MemoryManager {
public:
    explicit SimMemoryManager(const char* name = "mm") : fName(name) {}
    ~SimMemoryManager() { releaseQuarantine(); }
    MemoryManager* getExceptionMemoryManager() override { return XMLPlatformUtils::fgMemoryManager && XMLPlatformUtils::fgMemoryManager != this ? XMLPlatformUtils::fgMemoryManager->getExceptionMemoryManager() : this; }
    void* allocate(XMLSize_t size) override {
        g_run.tick(); fCount++;
        if (failAt && fCount == failAt) { g_run.fault("alloc_fail"); throw OutOfMemoryException(); }
        void* p = size >= BigPool::kBig ? BigPool::get(size) : malloc(size ? size : 1);
        if (!p) throw OutOfMemoryException();
        // debugging aid for replays: VERIF_TRAP_ALLOC=<manager name>:<allocation number> prints the allocation stack
        { static const char* trap = getenv("VERIF_TRAP_ALLOC"); if (trap) { const char* c = strchr(trap, ':'); if (c && fName.compare(0, std::string::npos, trap, (size_t)(c - trap)) == 0 && strtoull(c + 1, 0, 10) == fCount) { fprintf(stderr, "=== allocation #%llu of manager '%s' (%zu bytes)\n", (unsigned long long)fCount, fName.c_str(), (size_t)size); simPrintStack(); } } }
        { Blk b; b.no = fCount; b.size = size; capture(b.pc); fLive[p] = b; }
        fBytes += size; if (fLive.size() > fPeak) fPeak = fLive.size();
        return p;
    }
    void deallocate(void* p) override {
        if (!p) return;
        auto it = fLive.find(p);
        if (it == fLive.end()) {
            if (fFreed.count(p)) viol.push_back(MemViolation{ "double-free", fFreed[p].no, fFreed[p].size });
            else viol.push_back(MemViolation{ "foreign-free", 0, 0 });
            return;     // never hand an unknown pointer to free()
        }
        // freed blocks stay quarantined (and ASan-poisoned) until the manager is released: reuse cannot mask a double free
        fFreed[p] = it->second; fLive.erase(it);
        if (!quarantine) { Blk b = fFreed[p]; fFreed.erase(p); giveBack(p, b.size); }
        else SIM_POISON(p, fFreed[p].size);
    }
    void giveBack(void* p, size_t size) { if (size >= BigPool::kBig) BigPool::put(p, size); else { SIM_UNPOISON(p, size ? size : 1); free(p); } }
    size_t outstanding() const { return fLive.size(); }
    uint64_t count() const { return fCount; }
    std::string outstandingSummary(size_t max = 5) const {
        std::vector<std::pair<uint64_t, size_t>> v; for (auto& e : fLive) v.emplace_back(e.second.no, e.second.size);
        std::sort(v.begin(), v.end()); std::string s; for (size_t i = 0; i < v.size() && i < max; i++) s += "#" + std::to_string(v[i].first) + "(" + std::to_string(v[i].second) + "B) "; return s;
    }
    void releaseQuarantine() { for (auto& e : fFreed) giveBack(e.first, e.second.size); fFreed.clear(); }
    void releaseAll() { releaseQuarantine(); for (auto& e : fLive) giveBack(e.first, e.second.size); fLive.clear(); }
    uint64_t failAt = 0; bool quarantine = true;
    std::vector<MemViolation> viol;
private:
    struct Blk { uint64_t no; size_t size; void* pc[6]; };
    // cheap allocation-site capture: frame-pointer walk (everything is built with -fno-omit-frame-pointer)
    static void capture(void** out) {
        for (int i = 0; i < 6; i++) out[i] = nullptr;
        void** fp = (void**)__builtin_frame_address(0); int n = 0;
        for (int depth = 0; depth < 12 && n < 6 && fp; depth++) { void* pc = fp[1]; void** next = (void**)fp[0]; if (depth >= 1 && pc) out[n++] = pc; if (next <= fp || (char*)next - (char*)fp > (1 << 20) || ((uintptr_t)next & 7)) break; fp = next; }
    }
public:
    // name of the first library function above the allocator plumbing for the oldest outstanding block (stable class for leaks)
    std::string leakSite(std::string* chain = nullptr) const {
        const Blk* first = nullptr; for (auto& e : fLive) if (!first || e.second.no < first->no) first = &e.second;
        if (!first) return "?";
        std::string site; for (int i = 0; i < 6 && first->pc[i]; i++) { char buf[512] = ""; __sanitizer_symbolize_pc((char*)first->pc[i] - 1, "%f", buf, sizeof buf); std::string f = buf; size_t par = f.find('('); if (par != std::string::npos) f = f.substr(0, par);
            if (chain) { if (!chain->empty()) *chain += " <- "; *chain += f; }
            if (site.empty() && f.find("MemoryManager") == std::string::npos && f.find("XMemory::operator new") == std::string::npos && f.find("operator new") == std::string::npos && !f.empty()) site = f; }
        size_t ns = site.find("xercesc_4_0::"); if (ns == 0) site = site.substr(13);
        return site.empty() ? "?" : site;
    }
private:
    std::string fName; uint64_t fCount = 0, fBytes = 0; size_t fPeak = 0;
    std::unordered_map<void*, Blk> fLive, fFreed;
};

// ---------- process-wide manager handed to XMLPlatformUtils::Initialize by the sanitizer engines.
// An XMLReader is a ~170 KB object and one is created per entity per parse; under ASan every allocation of that
// size is an mmap/munmap plus a shadow madvise, and in this VM those calls serialise across processes (16 workers
// were slower than one). Blocks >= 64 KB are therefore recycled through a free list. A block in the free list is
// ASan-poisoned, and the slack behind the requested size stays poisoned while it is in use, so use-after-free and
// overflow on these blocks are still reported.
#if defined(__has_feature)
#if __has_feature(address_sanitizer)
#define SIM_HAS_ASAN 1
#endif
#endif
#ifdef SIM_HAS_ASAN
extern "C" void __asan_poison_memory_region(void const volatile* addr, size_t size);
extern "C" void __asan_unpoison_memory_region(void const volatile* addr, size_t size);
#define SIM_POISON(p, n) __asan_poison_memory_region((p), (n))
#define SIM_UNPOISON(p, n) __asan_unpoison_memory_region((p), (n))
#else
#define SIM_POISON(p, n) ((void)0)
#define SIM_UNPOISON(p, n) ((void)0)
#endif
class CachingGlobalMM : public MemoryManager {
public:
    MemoryManager* getExceptionMemoryManager() override { return this; }
    void* allocate(XMLSize_t size) override {
        if (size < kBig) { void* p = malloc(size ? size : 1); if (!p) throw OutOfMemoryException(); return p; }
        size_t cap = (size + 4095) & ~(size_t)4095;
        auto& fl = fFree[cap]; void* p;
        if (!fl.empty()) { p = fl.back(); fl.pop_back(); } else { p = malloc(cap); if (!p) throw OutOfMemoryException(); }
        SIM_UNPOISON(p, size); SIM_POISON((char*)p + size, cap - size);
        fBig[p] = cap; return p;
    }
    void deallocate(void* p) override {
        if (!p) return;
        auto it = fBig.find(p);
        if (it == fBig.end()) { free(p); return; }
        size_t cap = it->second; fBig.erase(it);
        auto& fl = fFree[cap];
        if (fl.size() >= 8) { SIM_UNPOISON(p, cap); free(p); return; }
        SIM_POISON(p, cap); fl.push_back(p);
    }
private:
    static const size_t kBig = 65536;
    std::unordered_map<void*, size_t> fBig; std::map<size_t, std::vector<void*>> fFree;
};

// ---------- simulated file system (installed in XMLPlatformUtils::fgFileMgr)
struct SimFile { std::string data; bool openFails = false; int64_t readThrowAt = -1; Schedule sched; int id = 0; };

class SimFileMgr : public XMLFileMgr {
public:
    struct Handle { SimFile* f; std::string path; size_t pos = 0; size_t next = 0; uint64_t reads = 0; bool write = false; bool isStdin = false; };
    std::map<std::string, SimFile> files;     // absolute path -> file
    std::string cwd = "/sim";
    SimFile stdinFile; bool hasStdin = false;
    std::vector<std::string> openLog;          // every path for which an open was attempted
    std::vector<std::string> openedOk;
    std::map<std::string, std::string> written;
    int liveHandles = 0; uint64_t opens = 0, closes = 0;

    static std::string normalize(const std::string& p) {
        std::vector<std::string> parts; size_t i = 0;
        while (i <= p.size()) { size_t j = p.find('/', i); if (j == std::string::npos) j = p.size(); std::string seg = p.substr(i, j - i); if (seg == "..") { if (!parts.empty()) parts.pop_back(); } else if (!seg.empty() && seg != ".") parts.push_back(seg); i = j + 1; }
        std::string o; for (auto& s : parts) o += "/" + s; return o.empty() ? "/" : o;
    }
    std::string absolute(const std::string& p) const { return normalize(!p.empty() && p[0] == '/' ? p : cwd + "/" + p); }

    FileHandle fileOpen(const XMLCh* path, bool toWrite, MemoryManager* const) override { return openImpl(u8(path), toWrite); }
    FileHandle fileOpen(const char* path, bool toWrite, MemoryManager* const) override { return openImpl(path, toWrite); }
    FileHandle openStdIn(MemoryManager* const) override {
        g_run.tick(); openLog.push_back("<stdin>"); g_run.evs("open", "<stdin>");
        if (!hasStdin) return 0;
        Handle* h = new Handle{ &stdinFile, "<stdin>" }; h->isStdin = true; liveHandles++; opens++; return h;
    }
    void fileClose(FileHandle f, MemoryManager* const) override { g_run.tick(); if (!f) return; Handle* h = (Handle*)f; g_run.evs("close", h->path); liveHandles--; closes++; delete h; }
    void fileReset(FileHandle f, MemoryManager* const) override { if (f) { ((Handle*)f)->pos = 0; } }
    XMLFilePos curPos(FileHandle f, MemoryManager* const) override { return f ? ((Handle*)f)->pos : 0; }
    XMLFilePos fileSize(FileHandle f, MemoryManager* const) override { return f ? ((Handle*)f)->f->data.size() : 0; }
    XMLSize_t fileRead(FileHandle f, XMLSize_t byteCount, XMLByte* buffer, MemoryManager* const manager) override {
        g_run.tick(); Handle* h = (Handle*)f; if (!h) ThrowXMLwithMemMgr(XMLPlatformUtilsException, XMLExcepts::CPtr_PointerIsZero, manager);
        h->reads++;
        if (h->f->readThrowAt >= 0 && h->reads == (uint64_t)h->f->readThrowAt) { g_run.fault("file_read_throw"); g_run.evs("file_read_throw", h->path); ThrowXMLwithMemMgr(XMLPlatformUtilsException, XMLExcepts::File_CouldNotReadFromFile, manager); }
        size_t want = h->next < h->f->sched.sizes.size() ? h->f->sched.sizes[h->next++] : h->f->sched.rest;
        size_t left = h->pos < h->f->data.size() ? h->f->data.size() - h->pos : 0; size_t n = std::min(std::min(want, (size_t)byteCount), left);
        if (n < left && n < byteCount) g_run.fault("short_read");
        memcpy(buffer, h->f->data.data() + h->pos, n); h->pos += n; g_run.ev("fread", (uint64_t)h->f->id, n);
        if (g_boundarySink) (*g_boundarySink)[h->f->id].push_back(h->pos);
        return n;
    }
    void fileWrite(FileHandle f, XMLSize_t byteCount, const XMLByte* buffer, MemoryManager* const) override { g_run.tick(); Handle* h = (Handle*)f; if (!h) return; written[h->path].append((const char*)buffer, byteCount); g_run.ev("fwrite", 0, byteCount); }
    XMLCh* getFullPath(const XMLCh* const srcPath, MemoryManager* const manager) override { std::u16string a = X(absolute(u8(srcPath))); return XMLString::replicate(xc(a), manager); }
    XMLCh* getCurrentDirectory(MemoryManager* const manager) override { std::u16string a = X(cwd); return XMLString::replicate(xc(a), manager); }
    bool isRelative(const XMLCh* const toCheck, MemoryManager* const) override { return !(toCheck && toCheck[0] == '/'); }
private:
    FileHandle openImpl(const std::string& rawPath, bool toWrite) {
        g_run.tick(); std::string p = absolute(rawPath); openLog.push_back(p); g_run.evs(toWrite ? "open_w" : "open", p);
        if (toWrite) { written[p].clear(); static SimFile sink; Handle* h = new Handle{ &sink, p }; h->write = true; liveHandles++; opens++; return h; }
        auto it = files.find(p);
        if (it == files.end()) { g_run.fault("file_missing"); return 0; }
        if (it->second.openFails) { g_run.fault("file_open_fail"); return 0; }
        openedOk.push_back(p); Handle* h = new Handle{ &it->second, p }; liveHandles++; opens++; return h;
    }
};

// ---------- simulated network (installed in XMLPlatformUtils::fgNetAccessor)
struct SimNetResource { std::string data; bool refuse = false; int64_t failAtRead = -1; Schedule sched; int id = 0; };

class SimNetAccessor : public XMLNetAccessor {
public:
    std::map<std::string, SimNetResource> table;   // URL text -> resource
    std::vector<std::string> requests;
    const XMLCh* getId() const override { static const XMLCh id[] = { 's', 'i', 'm', 0 }; return id; }
    BinInputStream* makeNew(const XMLURL& urlSrc, const XMLNetHTTPInfo* = 0) override {
        g_run.tick(); std::string url = u8(urlSrc.getURLText()); requests.push_back(url); g_run.evs("net", url);
        auto it = table.find(url);
        if (it == table.end() || it->second.refuse) { g_run.fault(it == table.end() ? "net_missing" : "net_refuse"); ThrowXMLwithMemMgr1(NetAccessorException, XMLExcepts::NetAcc_ConnSocket, urlSrc.getURLText(), urlSrc.getMemoryManager()); }
        StreamFaults f; f.throwAtRead = it->second.failAtRead;
        return new (urlSrc.getMemoryManager()) SimStream(it->second.id, it->second.data, it->second.sched, f, urlSrc.getMemoryManager());
    }
};

// Installs the simulated file system / network in the public statics; restores on destruction.
struct WorldInstall {
    XMLFileMgr* oldF; XMLNetAccessor* oldN; SimFileMgr* fm; SimNetAccessor* na;
    WorldInstall(SimFileMgr* f, SimNetAccessor* n) : oldF(XMLPlatformUtils::fgFileMgr), oldN(XMLPlatformUtils::fgNetAccessor), fm(f), na(n) { if (f) XMLPlatformUtils::fgFileMgr = f; if (n) XMLPlatformUtils::fgNetAccessor = n; }
    ~WorldInstall() { XMLPlatformUtils::fgFileMgr = oldF; XMLPlatformUtils::fgNetAccessor = oldN; }
};

} // namespace sim
