#include "seams.hpp"
namespace sim {
StreamStats g_streamStats;
std::map<int, std::vector<size_t>>* g_boundarySink = nullptr;
}
