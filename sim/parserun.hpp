// ParserBox: one parser object of any of the four APIs with recording handlers, driven by a ParseCfg
// over the simulated environment. Shared by streamsim, histsim, worldsim and threadsim.
#pragma once
#include "seams.hpp"
#include "worldgen.hpp"
#include <xercesc/parsers/SAXParser.hpp>
#include <xercesc/parsers/XercesDOMParser.hpp>
#include <xercesc/parsers/SAX2XMLReaderImpl.hpp>
#include <xercesc/sax2/XMLReaderFactory.hpp>
#include <xercesc/sax2/SAX2XMLReader.hpp>
#include <xercesc/sax2/ContentHandler.hpp>
#include <xercesc/sax2/LexicalHandler.hpp>
#include <xercesc/sax2/DeclHandler.hpp>
#include <xercesc/sax2/Attributes.hpp>
#include <xercesc/sax/DocumentHandler.hpp>
#include <xercesc/sax/DTDHandler.hpp>
#include <xercesc/sax/ErrorHandler.hpp>
#include <xercesc/sax/EntityResolver.hpp>
#include <xercesc/sax/AttributeList.hpp>
#include <xercesc/sax/Locator.hpp>
#include <xercesc/sax/SAXParseException.hpp>
#include <xercesc/sax/SAXException.hpp>
#include <xercesc/dom/DOM.hpp>
#include <xercesc/dom/DOMLSException.hpp>
#include <xercesc/framework/MemBufInputSource.hpp>
#include <xercesc/framework/LocalFileInputSource.hpp>
#include <xercesc/framework/StdInInputSource.hpp>
#include <xercesc/framework/URLInputSource.hpp>
#include <xercesc/framework/Wrapper4InputSource.hpp>
#include <xercesc/framework/XMLPScanToken.hpp>
#include <xercesc/framework/XMLGrammarPoolImpl.hpp>
#include <xercesc/util/XMLEntityResolver.hpp>
#include <xercesc/util/XMLResourceIdentifier.hpp>
#include <xercesc/util/SecurityManager.hpp>
#include <xercesc/util/XMLUni.hpp>
#include <xercesc/util/IllegalArgumentException.hpp>
#include <typeinfo>
#include <cxxabi.h>

namespace sim {

enum Api { API_SAX1 = 0, API_SAX2 = 1, API_DOM = 2, API_DOMLS = 3 };
static const char* const kApiNames[] = { "SAXParser", "SAX2XMLReader", "XercesDOMParser", "DOMLSParser" };
static const char* const kScannerNames[] = { "IGXMLScanner", "WFXMLScanner", "DGXMLScanner", "SGXMLScanner" };

struct ParseCfg {
    int api = API_SAX2; int scanner = 0; int val = 0;   // val: 0 never 1 always 2 auto
    bool ns = true, nsPrefixes = false, schema = false, fullSchema = false, exitOnFirstFatal = true, validationErrorAsFatal = false;
    bool loadExternalDTD = true, loadSchema = true, identity = true, entityRefNodes = false, includeIgnorableWS = true, comments = true;
    bool calcSrcOfs = false, disableDefaultEntityResolution = false, skipDTDValidation = false, standardUri = false;
    bool cacheGrammar = false, useCachedGrammar = false, doXInclude = false, psvi = false, disallowDoctype = false;
    bool secMgr = false; int entityLimit = 50000; int lowWaterMark = -1;
    bool positions = true;     // include locator positions in dumps
    static ParseCfg fromJson(const Json& j) {
        ParseCfg c; c.api = (int)j.geti("api", 1); c.scanner = (int)j.geti("scanner", 0); c.val = (int)j.geti("val", 0);
#define B(f) c.f = j.getb(#f, c.f)
        B(ns); B(nsPrefixes); B(schema); B(fullSchema); B(exitOnFirstFatal); B(validationErrorAsFatal); B(loadExternalDTD); B(loadSchema); B(identity); B(entityRefNodes); B(includeIgnorableWS); B(comments);
        B(calcSrcOfs); B(disableDefaultEntityResolution); B(skipDTDValidation); B(standardUri); B(cacheGrammar); B(useCachedGrammar); B(doXInclude); B(psvi); B(disallowDoctype); B(secMgr); B(positions);
#undef B
        c.entityLimit = (int)j.geti("entityLimit", c.entityLimit); c.lowWaterMark = (int)j.geti("lowWaterMark", -1); return c;
    }
    Json toJson() const {
        Json j = Json::obj(); j.set("api", api); j.set("scanner", scanner); j.set("val", val);
        ParseCfg d;
#define B(f) if (f != d.f) j.set(#f, f)
        B(ns); B(nsPrefixes); B(schema); B(fullSchema); B(exitOnFirstFatal); B(validationErrorAsFatal); B(loadExternalDTD); B(loadSchema); B(identity); B(entityRefNodes); B(includeIgnorableWS); B(comments);
        B(calcSrcOfs); B(disableDefaultEntityResolution); B(skipDTDValidation); B(standardUri); B(cacheGrammar); B(useCachedGrammar); B(doXInclude); B(psvi); B(disallowDoctype); B(secMgr); B(positions);
#undef B
        if (secMgr) j.set("entityLimit", entityLimit); if (lowWaterMark >= 0) j.set("lowWaterMark", lowWaterMark); return j;
    }
    static ParseCfg random(Rng& r) {
        ParseCfg c; c.api = (int)r.below(4); c.scanner = (int)r.below(10) < 5 ? 0 : (int)r.below(4); c.val = (int)r.below(3);
        c.ns = r.chance(2, 3); c.nsPrefixes = r.chance(1, 4); c.schema = r.chance(1, 4); c.fullSchema = c.schema && r.chance(1, 3);
        c.exitOnFirstFatal = !r.chance(1, 5); c.validationErrorAsFatal = r.chance(1, 10); c.loadExternalDTD = !r.chance(1, 4);
        c.entityRefNodes = r.chance(1, 3); c.includeIgnorableWS = !r.chance(1, 4); c.comments = !r.chance(1, 6);
        c.calcSrcOfs = r.chance(1, 4); c.skipDTDValidation = r.chance(1, 10); c.standardUri = r.chance(1, 10);
        c.secMgr = r.chance(1, 4); if (c.secMgr) c.entityLimit = r.chance(1, 2) ? (int)r.below(8) : 50000;
        static const int lw[] = { -1, -1, -1, 0, 1, 99, 100, 101, 4096 }; c.lowWaterMark = lw[r.below(9)];
        return c;
    }
};

struct InjectedSAX : public SAXException { InjectedSAX() : SAXException("injected handler abort") {} InjectedSAX(const InjectedSAX& o) : SAXException(o) {} };
struct ForeignAbort { int code; };

// -------- recorder shared by all adapters
struct Rec {
    std::string out, pend; int pendKind = 0;    // 1 chars 2 ignorable
    uint64_t callbacks = 0; int64_t throwAt = -1; int flavour = 0; bool threw = false;
    const Locator* loc = nullptr; bool positions = true; int warnings = 0, errors = 0, fatals = 0;
    std::vector<std::string> errCodes;
    std::function<std::string()> srcOfs;      // optional: getSrcOffset of the running parser
    MemoryManager* mm = XMLPlatformUtils::fgMemoryManager;
    void reset() { out.clear(); pend.clear(); pendKind = 0; callbacks = 0; threw = false; loc = nullptr; warnings = errors = fatals = 0; errCodes.clear(); }
    void cb() {
        g_run.tick(); callbacks++;
        if (throwAt >= 0 && (int64_t)callbacks == throwAt) {
            threw = true; g_run.fault("handler_throw"); g_run.ev("handler_throw", callbacks, (uint64_t)flavour); flush(); out += "!! handler throws here\n";
            if (flavour == 0) throw InjectedSAX();
            if (flavour == 1) ThrowXMLwithMemMgr(IllegalArgumentException, XMLExcepts::Gen_NoDTDValidator, mm);
            throw ForeignAbort{ 42 };
        }
    }
    void flush() { if (pendKind) { out += pendKind == 1 ? "chars \"" : "ignws \""; out += esc8(pend); out += "\"\n"; pend.clear(); pendKind = 0; } }
    std::string pos() { if (!positions || !loc) return ""; char b[64]; snprintf(b, sizeof b, " @%llu:%llu", (unsigned long long)loc->getLineNumber(), (unsigned long long)loc->getColumnNumber()); std::string s = b; if (srcOfs) s += srcOfs(); return s; }
    void line(const std::string& s) { flush(); out += s; out += '\n'; }
    void chars(const XMLCh* c, XMLSize_t n, int kind) { if (pendKind != kind) flush(); pendKind = kind; pend += u8(c, n); }
};

inline std::string normSys(const std::string& s) {
    static const char* pre[] = { "file:///sim/", "file:/sim/", "http://sim.test/", "/sim/" };
    for (auto p : pre) { size_t n = strlen(p); if (s.compare(0, n, p) == 0) return s.substr(n); }
    if (s == "stdin") return "doc.xml";
    return s;
}
inline std::string normMsg(std::string m) {
    static const char* pre[] = { "file:///sim/", "file:/sim/", "http://sim.test/", "/sim/" };
    for (auto p : pre) { size_t n = strlen(p), at; while ((at = m.find(p)) != std::string::npos) m.erase(at, n); }
    { size_t at; while ((at = m.find("'stdin'")) != std::string::npos) m.replace(at, 7, "'doc.xml'"); }
    return m;
}
inline std::string sysOf(const XMLCh* s) { return s ? normSys(u8(s)) : std::string("(null)"); }

struct ErrAdapter : public ErrorHandler {
    Rec& r; explicit ErrAdapter(Rec& rr) : r(rr) {}
    void rep(const char* sev, const SAXParseException& e) {
        r.flush(); char b[64]; snprintf(b, sizeof b, " %llu:%llu", (unsigned long long)e.getLineNumber(), (unsigned long long)e.getColumnNumber());
        r.out += sev; r.out += " ["; r.out += sysOf(e.getSystemId()); r.out += b; r.out += "] "; r.out += normMsg(pu8(e.getMessage())); r.out += '\n';
    }
    void warning(const SAXParseException& e) override { r.warnings++; rep("WARNING", e); r.cb(); }
    void error(const SAXParseException& e) override { r.errors++; rep("ERROR", e); r.cb(); }
    void fatalError(const SAXParseException& e) override { r.fatals++; rep("FATAL", e); r.cb(); }
    void resetErrors() override {}
};

struct DomErrAdapter : public DOMErrorHandler {
    Rec& r; explicit DomErrAdapter(Rec& rr) : r(rr) {}
    bool handleError(const DOMError& e) override {
        r.flush(); const char* sev = e.getSeverity() == DOMError::DOM_SEVERITY_WARNING ? "WARNING" : e.getSeverity() == DOMError::DOM_SEVERITY_ERROR ? "ERROR" : "FATAL";
        if (e.getSeverity() == DOMError::DOM_SEVERITY_WARNING) r.warnings++; else if (e.getSeverity() == DOMError::DOM_SEVERITY_ERROR) r.errors++; else r.fatals++;
        DOMLocator* l = e.getLocation(); char b[64] = ""; std::string sys = "(null)";
        if (l) { snprintf(b, sizeof b, " %llu:%llu", (unsigned long long)l->getLineNumber(), (unsigned long long)l->getColumnNumber()); sys = sysOf(l->getURI()); }
        r.out += sev; r.out += " ["; r.out += sys; r.out += b; r.out += "] "; r.out += normMsg(pu8(e.getMessage())); r.out += '\n';
        r.cb();
        return true;   // continue as the parser's own settings decide
    }
};

struct Sax2Adapter : public ContentHandler, public LexicalHandler, public DeclHandler, public DTDHandler {
    Rec& r; explicit Sax2Adapter(Rec& rr) : r(rr) {}
    void characters(const XMLCh* const c, const XMLSize_t n) override { r.chars(c, n, 1); r.cb(); }
    void ignorableWhitespace(const XMLCh* const c, const XMLSize_t n) override { r.chars(c, n, 2); r.cb(); }
    void endDocument() override { r.line("endDocument"); r.cb(); }
    void startDocument() override { r.line("startDocument"); r.cb(); }
    void setDocumentLocator(const Locator* const l) override { r.loc = l; }
    void processingInstruction(const XMLCh* const t, const XMLCh* const d) override { r.line("pi " + pu8(t) + " \"" + pu8(d) + "\"" + r.pos()); r.cb(); }
    void startElement(const XMLCh* const uri, const XMLCh* const ln, const XMLCh* const qn, const Attributes& a) override {
        std::string s = "start {" + pu8(uri) + "}" + pu8(ln) + " " + pu8(qn) + r.pos();
        for (XMLSize_t i = 0; i < a.getLength(); i++) s += "\n  attr {" + pu8(a.getURI(i)) + "}" + pu8(a.getLocalName(i)) + " " + pu8(a.getQName(i)) + " " + pu8(a.getType(i)) + " \"" + pu8(a.getValue(i)) + "\"";
        r.line(s); r.cb();
    }
    void endElement(const XMLCh* const uri, const XMLCh* const ln, const XMLCh* const qn) override { r.line("end {" + pu8(uri) + "}" + pu8(ln) + " " + pu8(qn) + r.pos()); r.cb(); }
    void startPrefixMapping(const XMLCh* const p, const XMLCh* const u) override { r.line("startPrefix " + pu8(p) + " " + pu8(u)); r.cb(); }
    void endPrefixMapping(const XMLCh* const p) override { r.line("endPrefix " + pu8(p)); r.cb(); }
    void skippedEntity(const XMLCh* const n) override { r.line("skipped " + pu8(n)); r.cb(); }
    void comment(const XMLCh* const c, const XMLSize_t n) override { r.line("comment \"" + esc8(u8(c, n)) + "\"" + r.pos()); r.cb(); }
    void endCDATA() override { r.line("endCDATA"); r.cb(); }
    void startCDATA() override { r.line("startCDATA"); r.cb(); }
    void endDTD() override { r.line("endDTD"); r.cb(); }
    void startDTD(const XMLCh* const n, const XMLCh* const p, const XMLCh* const s) override { r.line("startDTD " + pu8(n) + " pub=" + pu8(p) + " sys=" + pu8(s)); r.cb(); }
    void startEntity(const XMLCh* const n) override { r.line("startEntity " + pu8(n)); r.cb(); }
    void endEntity(const XMLCh* const n) override { r.line("endEntity " + pu8(n)); r.cb(); }
    void elementDecl(const XMLCh* const n, const XMLCh* const m) override { r.line("elementDecl " + pu8(n) + " " + pu8(m)); r.cb(); }
    void attributeDecl(const XMLCh* const e, const XMLCh* const a, const XMLCh* const t, const XMLCh* const m, const XMLCh* const v) override { r.line("attributeDecl " + pu8(e) + " " + pu8(a) + " " + pu8(t) + " " + pu8(m) + " " + pu8(v)); r.cb(); }
    void internalEntityDecl(const XMLCh* const n, const XMLCh* const v) override { r.line("internalEntityDecl " + pu8(n) + " \"" + pu8(v) + "\""); r.cb(); }
    void externalEntityDecl(const XMLCh* const n, const XMLCh* const p, const XMLCh* const s) override { r.line("externalEntityDecl " + pu8(n) + " pub=" + pu8(p) + " sys=" + sysOf(s)); r.cb(); }
    void notationDecl(const XMLCh* const n, const XMLCh* const p, const XMLCh* const s) override { r.line("notationDecl " + pu8(n) + " pub=" + pu8(p) + " sys=" + sysOf(s)); r.cb(); }
    void unparsedEntityDecl(const XMLCh* const n, const XMLCh* const p, const XMLCh* const s, const XMLCh* const nn) override { r.line("unparsedEntityDecl " + pu8(n) + " pub=" + pu8(p) + " sys=" + sysOf(s) + " " + pu8(nn)); r.cb(); }
    void resetDocType() override {}
};

struct Sax1Adapter : public DocumentHandler, public DTDHandler {
    Rec& r; explicit Sax1Adapter(Rec& rr) : r(rr) {}
    void characters(const XMLCh* const c, const XMLSize_t n) override { r.chars(c, n, 1); r.cb(); }
    void ignorableWhitespace(const XMLCh* const c, const XMLSize_t n) override { r.chars(c, n, 2); r.cb(); }
    void endDocument() override { r.line("endDocument"); r.cb(); }
    void startDocument() override { r.line("startDocument"); r.cb(); }
    void resetDocument() override {}
    void setDocumentLocator(const Locator* const l) override { r.loc = l; }
    void processingInstruction(const XMLCh* const t, const XMLCh* const d) override { r.line("pi " + pu8(t) + " \"" + pu8(d) + "\"" + r.pos()); r.cb(); }
    void startElement(const XMLCh* const n, AttributeList& a) override {
        std::string s = "start " + pu8(n) + r.pos();
        for (XMLSize_t i = 0; i < a.getLength(); i++) s += "\n  attr " + pu8(a.getName(i)) + " " + pu8(a.getType(i)) + " \"" + pu8(a.getValue(i)) + "\"";
        r.line(s); r.cb();
    }
    void endElement(const XMLCh* const n) override { r.line("end " + pu8(n) + r.pos()); r.cb(); }
    void notationDecl(const XMLCh* const n, const XMLCh* const p, const XMLCh* const s) override { r.line("notationDecl " + pu8(n) + " pub=" + pu8(p) + " sys=" + sysOf(s)); r.cb(); }
    void unparsedEntityDecl(const XMLCh* const n, const XMLCh* const p, const XMLCh* const s, const XMLCh* const nn) override { r.line("unparsedEntityDecl " + pu8(n) + " pub=" + pu8(p) + " sys=" + sysOf(s) + " " + pu8(nn)); r.cb(); }
    void resetDocType() override {}
};

// -------- DOM dump through public getters only; cycle-safe by depth/size bounds
inline void dumpDomNode(const DOMNode* n, std::string& out, int depth, size_t& budget, bool typeInfo = false) {
    if (!n) return; if (depth > 200 || budget == 0) { out += "!! dump bound hit\n"; return; } budget--;
    std::string ind((size_t)depth, ' ');
    switch (n->getNodeType()) {
    case DOMNode::ELEMENT_NODE: {
        const DOMElement* e = (const DOMElement*)n;
        out += ind + "E {" + pu8(n->getNamespaceURI()) + "}" + pu8(n->getLocalName()) + " " + pu8(n->getNodeName());
        if (typeInfo) { const DOMTypeInfo* ti = e->getSchemaTypeInfo(); if (ti) out += " type={" + pu8(ti->getTypeNamespace()) + "}" + pu8(ti->getTypeName()); }
        out += "\n";
        DOMNamedNodeMap* m = n->getAttributes();
        if (m) for (XMLSize_t i = 0; i < m->getLength(); i++) { const DOMAttr* a = (const DOMAttr*)m->item(i); out += ind + " A {" + pu8(a->getNamespaceURI()) + "}" + pu8(a->getLocalName()) + " " + pu8(a->getNodeName()) + "=\"" + pu8(a->getNodeValue()) + "\" spec=" + (a->getSpecified() ? "1" : "0") + (a->isId() ? " id" : "");
            if (typeInfo) { const DOMTypeInfo* ti = a->getSchemaTypeInfo(); if (ti) out += " type={" + pu8(ti->getTypeNamespace()) + "}" + pu8(ti->getTypeName()); }
            out += "\n";
            for (DOMNode* c = a->getFirstChild(); c; c = c->getNextSibling()) if (c->getNodeType() != DOMNode::TEXT_NODE) dumpDomNode(c, out, depth + 2, budget); }
        break; }
    case DOMNode::TEXT_NODE: out += ind + "T \"" + pu8(n->getNodeValue()) + "\"" + (((const DOMText*)n)->isIgnorableWhitespace() ? " ign" : "") + "\n"; break;
    case DOMNode::CDATA_SECTION_NODE: out += ind + "C \"" + pu8(n->getNodeValue()) + "\"\n"; break;
    case DOMNode::COMMENT_NODE: out += ind + "! \"" + pu8(n->getNodeValue()) + "\"\n"; break;
    case DOMNode::PROCESSING_INSTRUCTION_NODE: out += ind + "? " + pu8(n->getNodeName()) + " \"" + pu8(n->getNodeValue()) + "\"\n"; break;
    case DOMNode::ENTITY_REFERENCE_NODE: out += ind + "& " + pu8(n->getNodeName()) + "\n"; break;
    case DOMNode::DOCUMENT_TYPE_NODE: {
        const DOMDocumentType* dt = (const DOMDocumentType*)n;
        out += ind + "DOCTYPE " + pu8(dt->getName()) + " pub=" + pu8(dt->getPublicId()) + " sys=" + pu8(dt->getSystemId()) + " internal=\"" + pu8(dt->getInternalSubset()) + "\"\n";
        DOMNamedNodeMap* es = dt->getEntities();
        if (es) for (XMLSize_t i = 0; i < es->getLength(); i++) { const DOMEntity* en = (const DOMEntity*)es->item(i); out += ind + " ENTITY " + pu8(en->getNodeName()) + " pub=" + pu8(en->getPublicId()) + " sys=" + sysOf(en->getSystemId()) + " ndata=" + pu8(en->getNotationName()) + "\n"; for (DOMNode* c = en->getFirstChild(); c; c = c->getNextSibling()) dumpDomNode(c, out, depth + 2, budget); }
        DOMNamedNodeMap* ns = dt->getNotations();
        if (ns) for (XMLSize_t i = 0; i < ns->getLength(); i++) { const DOMNotation* no = (const DOMNotation*)ns->item(i); out += ind + " NOTATION " + pu8(no->getNodeName()) + " pub=" + pu8(no->getPublicId()) + " sys=" + sysOf(no->getSystemId()) + "\n"; }
        return; }
    case DOMNode::DOCUMENT_NODE: { const DOMDocument* d = (const DOMDocument*)n; out += "DOC enc=" + pu8(d->getInputEncoding()) + " xmlenc=" + pu8(d->getXmlEncoding()) + " ver=" + pu8(d->getXmlVersion()) + " sa=" + (d->getXmlStandalone() ? "1" : "0") + "\n"; break; }
    case DOMNode::DOCUMENT_FRAGMENT_NODE: out += ind + "FRAGMENT\n"; break;
    default: out += ind + "node type " + std::to_string((int)n->getNodeType()) + " " + pu8(n->getNodeName()) + "\n"; break;
    }
    for (DOMNode* c = n->getFirstChild(); c; c = c->getNextSibling()) dumpDomNode(c, out, depth + 1, budget, typeInfo);
}
inline std::string dumpDom(const DOMNode* n, bool typeInfo = false) { std::string s; size_t budget = 200000; dumpDomNode(n, s, 0, budget, typeInfo); return s; }

inline std::string demangle(const char* n) { int st = 0; char* d = abi::__cxa_demangle(n, 0, 0, &st); std::string s = d ? d : n; free(d); return s; }

// -------- the environment a parse runs in
struct ParseEnv {
    const std::vector<Resource>* res = nullptr;
    std::string sourceKind = "custom";      // custom | membuf | file | stdin | url
    int resolver = 1;                        // 0 none (default resolution through SimFileMgr), 1 XMLEntityResolver, 2 SAX EntityResolver / DOMLSResourceResolver
    std::map<std::string, Schedule> sched; std::map<std::string, StreamFaults> sfaults;
    int64_t handlerThrowAt = -1; int handlerFlavour = 0;
    int64_t progressiveSteps = -1; bool progressiveReset = true;   // parseFirst + n parseNext then abandon
    bool resolverThrows = false; std::string resolverNullFor;
    std::string docSysId = "/sim/doc.xml", docUrl = "http://sim.test/doc.xml";   // where the document entity lives in the simulated world
    bool externalResolver = false;           // true: the caller installed its own resolver on the parser; parse() leaves it alone
    const Schedule& schedFor(const std::string& n) const { static Schedule one; auto it = sched.find(n); return it == sched.end() ? one : it->second; }
    StreamFaults faultsFor(const std::string& n) const { auto it = sfaults.find(n); return it == sfaults.end() ? StreamFaults() : it->second; }
    const Resource* find(const std::string& name) const { if (res) for (auto& r : *res) if (r.name == name) return &r; return nullptr; }
};

struct ParseResult {
    std::string dump; int warnings = 0, errors = 0, fatals = 0; uint64_t callbacks = 0;
    std::string exception;     // demangled dynamic type family: "" | SAXParseException | SAXException | XMLException:<type> | DOMException | DOMLSException | OutOfMemory | Injected* | FOREIGN:<type>
    bool foreign = false; bool completed = false; bool abandoned = false;
    std::vector<std::string> opened;    // resource names whose stream was opened
};

// resolver over the world's resources (mode 1 and 2)
struct ResolverRecord { std::string publicId, systemId, baseURI; int type = -1; bool answered = false; };
struct SimResolver : public XMLEntityResolver, public EntityResolver, public DOMLSResourceResolver {
    const ParseEnv* env = nullptr; MemoryManager* mm = XMLPlatformUtils::fgMemoryManager; std::vector<std::string>* opened = nullptr;
    std::vector<ResolverRecord> offers;
    static std::string baseName(const std::string& s) { std::string n = normSys(s); return n; }
    InputSource* make(const std::string& sysLiteral) {
        g_run.tick();
        std::string name = baseName(sysLiteral);
        if (env->resolverThrows) { g_run.fault("resolver_throw"); throw InjectedSAX(); }
        if (!env->resolverNullFor.empty() && env->resolverNullFor == name) { g_run.fault("resolver_null"); return nullptr; }
        const Resource* r = env->find(name);
        if (!r) { g_run.ev("resolve_miss"); return nullptr; }
        if (opened) opened->push_back(name);
        int id = (int)(r - &(*env->res)[0]);
        std::u16string sys = X("/sim/" + name);
        g_run.evs("resolve", name);
        return new (mm) SimInputSource(id, r->bytes, env->schedFor(name), env->faultsFor(name), xc(sys), mm);
    }
    InputSource* resolveEntity(XMLResourceIdentifier* ri) override { ResolverRecord rec; rec.publicId = u8(ri->getPublicId()); rec.systemId = u8(ri->getSystemId()); rec.baseURI = u8(ri->getBaseURI()); rec.type = (int)ri->getResourceIdentifierType(); offers.push_back(rec); InputSource* s = make(ri->getSystemId() ? u8(ri->getSystemId()) : ""); offers.back().answered = s != nullptr; return s; }
    InputSource* resolveEntity(const XMLCh* const pub, const XMLCh* const sys) override { ResolverRecord rec; rec.publicId = u8(pub); rec.systemId = u8(sys); offers.push_back(rec); InputSource* s = make(sys ? u8(sys) : ""); offers.back().answered = s != nullptr; return s; }
    DOMLSInput* resolveResource(const XMLCh* const, const XMLCh* const, const XMLCh* const pub, const XMLCh* const sys, const XMLCh* const base) override {
        ResolverRecord rec; rec.publicId = u8(pub); rec.systemId = u8(sys); rec.baseURI = u8(base); offers.push_back(rec);
        InputSource* s = make(sys ? u8(sys) : ""); offers.back().answered = s != nullptr; if (!s) return nullptr; return new Wrapper4InputSource(s, true, mm);
    }
};

class ParserBox {
public:
    ParserBox(int api, MemoryManager* mm = XMLPlatformUtils::fgMemoryManager, XMLGrammarPool* pool = nullptr) : fApi(api), fMM(mm), fErr(fRec), fDomErr(fRec), fS2(fRec), fS1(fRec) {
        fRec.mm = mm; fResolver.mm = mm;
        switch (api) {
        case API_SAX1: fSax1 = new (mm) SAXParser(0, mm, pool); fSax1->setDocumentHandler(&fS1); fSax1->setDTDHandler(&fS1); fSax1->setErrorHandler(&fErr); break;
        case API_SAX2: fSax2 = XMLReaderFactory::createXMLReader(mm, pool); fSax2->setContentHandler(&fS2); fSax2->setLexicalHandler(&fS2); fSax2->setDeclarationHandler(&fS2); fSax2->setDTDHandler(&fS2); fSax2->setErrorHandler(&fErr); break;
        case API_DOM: fDom = new (mm) XercesDOMParser(0, mm, pool); fDom->setErrorHandler(&fErr); break;
        default: {
            static const XMLCh ls[] = { 'L', 'S', 0 };
            DOMImplementation* impl = DOMImplementationRegistry::getDOMImplementation(ls);
            fLs = ((DOMImplementationLS*)impl)->createLSParser(DOMImplementationLS::MODE_SYNCHRONOUS, 0, mm, pool);
            fLs->getDomConfig()->setParameter(XMLUni::fgDOMErrorHandler, (const void*)&fDomErr);
            break; }
        }
    }
    ~ParserBox() { destroy(); }
    void destroy() { if (fSax1) { delete fSax1; fSax1 = 0; } if (fSax2) { delete fSax2; fSax2 = 0; } if (fDom) { delete fDom; fDom = 0; } if (fLs) { fLs->release(); fLs = 0; } delete fSec; fSec = 0; }
    int api() const { return fApi; }
    XercesDOMParser* dom() { return fDom; } DOMLSParser* ls() { return fLs; } SAXParser* sax1() { return fSax1; } SAX2XMLReader* sax2() { return fSax2; }
    int fScannerKind = 0;      // 0 = IGXMLScanner, the scanner every parser starts with
    Rec& rec() { return fRec; } SimResolver& resolver() { return fResolver; }

    void configure(const ParseCfg& c) {
        fCfg = c; fRec.positions = c.positions;
        const XMLCh* scn = c.scanner == 1 ? XMLUni::fgWFXMLScanner : c.scanner == 2 ? XMLUni::fgDGXMLScanner : c.scanner == 3 ? XMLUni::fgSGXMLScanner : XMLUni::fgIGXMLScanner;
        // limitAfterInstall: the application configures its SecurityManager AFTER handing it to the parser (the parser must read the limit when it parses, not when it is given the manager)
        if (c.secMgr) { if (!fSec) fSec = new SecurityManager(); fSec->setEntityExpansionLimit(limitAfterInstall ? (XMLSize_t)c.entityLimit + 1000003 : (XMLSize_t)c.entityLimit); }
        SecurityManager* sm = c.secMgr ? fSec : nullptr;
        // installing a scanner REPLACES the scanner object (and with it everything the old one remembered): only when the kind changes
        const bool newScanner = c.scanner != fScannerKind; fScannerKind = c.scanner; if (newScanner) g_run.probe("scanner_replaced");
        if (fSax1) { auto* p = fSax1;
            if (newScanner) p->useScanner(scn);
            p->setValidationScheme(c.val == 0 ? SAXParser::Val_Never : c.val == 1 ? SAXParser::Val_Always : SAXParser::Val_Auto);
            p->setDoNamespaces(c.ns); p->setDoSchema(c.schema); p->setValidationSchemaFullChecking(c.fullSchema); p->setIdentityConstraintChecking(c.identity);
            p->setExitOnFirstFatalError(c.exitOnFirstFatal); p->setValidationConstraintFatal(c.validationErrorAsFatal); p->setLoadExternalDTD(c.loadExternalDTD); p->setLoadSchema(c.loadSchema);
            p->setCalculateSrcOfs(c.calcSrcOfs); p->setDisableDefaultEntityResolution(c.disableDefaultEntityResolution); p->setSkipDTDValidation(c.skipDTDValidation); p->setStandardUriConformant(c.standardUri);
            p->cacheGrammarFromParse(c.cacheGrammar); p->useCachedGrammarInParse(c.useCachedGrammar || c.cacheGrammar); p->setSecurityManager(sm); p->setDisallowDoctype(c.disallowDoctype);
            if (c.lowWaterMark >= 0) p->setLowWaterMark((XMLSize_t)c.lowWaterMark); else p->setLowWaterMark(100);
            if (c.calcSrcOfs) fRec.srcOfs = [p]() { return " ofs=" + std::to_string((unsigned long long)p->getSrcOffset()); }; else fRec.srcOfs = nullptr;
        } else if (fSax2) { auto* p = fSax2;
            if (newScanner) p->setProperty(XMLUni::fgXercesScannerName, (void*)scn);
            p->setFeature(XMLUni::fgSAX2CoreValidation, c.val != 0); p->setFeature(XMLUni::fgXercesDynamic, c.val == 2);
            p->setFeature(XMLUni::fgSAX2CoreNameSpaces, c.ns); p->setFeature(XMLUni::fgSAX2CoreNameSpacePrefixes, c.nsPrefixes);
            p->setFeature(XMLUni::fgXercesSchema, c.schema); p->setFeature(XMLUni::fgXercesSchemaFullChecking, c.fullSchema); p->setFeature(XMLUni::fgXercesIdentityConstraintChecking, c.identity);
            p->setExitOnFirstFatalError(c.exitOnFirstFatal); p->setValidationConstraintFatal(c.validationErrorAsFatal);
            p->setFeature(XMLUni::fgXercesLoadExternalDTD, c.loadExternalDTD); p->setFeature(XMLUni::fgXercesLoadSchema, c.loadSchema);
            p->setFeature(XMLUni::fgXercesCalculateSrcOfs, c.calcSrcOfs); p->setFeature(XMLUni::fgXercesDisableDefaultEntityResolution, c.disableDefaultEntityResolution);
            p->setFeature(XMLUni::fgXercesSkipDTDValidation, c.skipDTDValidation); p->setFeature(XMLUni::fgXercesStandardUriConformant, c.standardUri);
            p->setFeature(XMLUni::fgXercesCacheGrammarFromParse, c.cacheGrammar); p->setFeature(XMLUni::fgXercesUseCachedGrammarInParse, c.useCachedGrammar || c.cacheGrammar);
            p->setProperty(XMLUni::fgXercesSecurityManager, (void*)sm); p->setFeature(XMLUni::fgXercesDisallowDoctype, c.disallowDoctype);
            XMLSize_t lw = c.lowWaterMark >= 0 ? (XMLSize_t)c.lowWaterMark : 100; p->setProperty(XMLUni::fgXercesLowWaterMark, &lw);
            if (c.calcSrcOfs) fRec.srcOfs = [p]() { return " ofs=" + std::to_string((unsigned long long)((SAX2XMLReaderImpl*)p)->getSrcOffset()); }; else fRec.srcOfs = nullptr;
        } else if (fDom) { auto* p = fDom;
            if (newScanner) p->useScanner(scn);
            p->setValidationScheme(c.val == 0 ? XercesDOMParser::Val_Never : c.val == 1 ? XercesDOMParser::Val_Always : XercesDOMParser::Val_Auto);
            p->setDoNamespaces(c.ns); p->setDoSchema(c.schema); p->setValidationSchemaFullChecking(c.fullSchema); p->setIdentityConstraintChecking(c.identity);
            p->setExitOnFirstFatalError(c.exitOnFirstFatal); p->setValidationConstraintFatal(c.validationErrorAsFatal); p->setLoadExternalDTD(c.loadExternalDTD); p->setLoadSchema(c.loadSchema);
            p->setCalculateSrcOfs(c.calcSrcOfs); p->setDisableDefaultEntityResolution(c.disableDefaultEntityResolution); p->setSkipDTDValidation(c.skipDTDValidation); p->setStandardUriConformant(c.standardUri);
            p->cacheGrammarFromParse(c.cacheGrammar); p->useCachedGrammarInParse(c.useCachedGrammar || c.cacheGrammar); p->setSecurityManager(sm); p->setDisallowDoctype(c.disallowDoctype);
            p->setCreateEntityReferenceNodes(c.entityRefNodes); p->setIncludeIgnorableWhitespace(c.includeIgnorableWS); p->setCreateCommentNodes(c.comments); p->setDoXInclude(c.doXInclude);
            p->setCreateSchemaInfo(c.psvi);
            if (c.lowWaterMark >= 0) p->setLowWaterMark((XMLSize_t)c.lowWaterMark); else p->setLowWaterMark(100);
        } else if (fLs) { DOMConfiguration* g = fLs->getDomConfig();
            auto setb = [&](const XMLCh* n, bool v) { if (g->canSetParameter(n, v)) g->setParameter(n, v); };
            if (newScanner) g->setParameter(XMLUni::fgXercesScannerName, (const void*)scn);
            setb(XMLUni::fgDOMValidate, c.val == 1); setb(XMLUni::fgDOMValidateIfSchema, c.val == 2);
            setb(XMLUni::fgDOMNamespaces, c.ns); setb(XMLUni::fgXercesSchema, c.schema); setb(XMLUni::fgXercesSchemaFullChecking, c.fullSchema); setb(XMLUni::fgXercesIdentityConstraintChecking, c.identity);
            setb(XMLUni::fgXercesContinueAfterFatalError, !c.exitOnFirstFatal); setb(XMLUni::fgXercesValidationErrorAsFatal, c.validationErrorAsFatal);
            setb(XMLUni::fgXercesLoadExternalDTD, c.loadExternalDTD); setb(XMLUni::fgXercesLoadSchema, c.loadSchema); setb(XMLUni::fgXercesCalculateSrcOfs, c.calcSrcOfs);
            setb(XMLUni::fgXercesDisableDefaultEntityResolution, c.disableDefaultEntityResolution); setb(XMLUni::fgXercesSkipDTDValidation, c.skipDTDValidation); setb(XMLUni::fgXercesStandardUriConformant, c.standardUri);
            setb(XMLUni::fgXercesCacheGrammarFromParse, c.cacheGrammar); setb(XMLUni::fgXercesUseCachedGrammarInParse, c.useCachedGrammar || c.cacheGrammar);
            setb(XMLUni::fgDOMEntities, c.entityRefNodes); setb(XMLUni::fgDOMElementContentWhitespace, c.includeIgnorableWS); setb(XMLUni::fgDOMComments, c.comments); setb(XMLUni::fgXercesDoXInclude, c.doXInclude);
            setb(XMLUni::fgXercesDOMHasPSVIInfo, c.psvi); setb(XMLUni::fgDOMDisallowDoctype, c.disallowDoctype);
            g->setParameter(XMLUni::fgXercesSecurityManager, (const void*)sm);
            XMLSize_t lw = c.lowWaterMark >= 0 ? (XMLSize_t)c.lowWaterMark : 100; g->setParameter(XMLUni::fgXercesLowWaterMark, (const void*)&lw);
        }
        if (c.secMgr && limitAfterInstall) fSec->setEntityExpansionLimit((XMLSize_t)c.entityLimit);
    }
    bool limitAfterInstall = false;

    void installResolver(const ParseEnv& env) {
        fResolver.env = &env; fResolver.offers.clear();
        XMLEntityResolver* xr = env.resolver == 1 ? &fResolver : nullptr; EntityResolver* er = env.resolver == 2 ? &fResolver : nullptr;
        if (fSax1) { fSax1->setXMLEntityResolver(xr); if (!xr) fSax1->setEntityResolver(er); }
        else if (fSax2) { ((SAX2XMLReaderImpl*)fSax2)->setXMLEntityResolver(xr); if (!xr) fSax2->setEntityResolver(er); }
        else if (fDom) { fDom->setXMLEntityResolver(xr); if (!xr) fDom->setEntityResolver(er); }
        else if (fLs) { DOMConfiguration* g = fLs->getDomConfig(); g->setParameter(XMLUni::fgXercesEntityResolver, (const void*)xr); g->setParameter(XMLUni::fgDOMResourceResolver, (const void*)(env.resolver == 2 ? (DOMLSResourceResolver*)&fResolver : nullptr)); }
    }

    // One parse of env.res[0] (the document entity) in the given environment.
    ParseResult parse(const ParseEnv& env, bool keepDomDump = true) {
        ParseResult pr; fRec.reset(); fRec.throwAt = env.handlerThrowAt; fRec.flavour = env.handlerFlavour;
        fOpened.clear(); fResolver.opened = &fOpened; if (!env.externalResolver) installResolver(env);
        const Resource& doc = (*env.res)[0];
        std::unique_ptr<InputSource> src; std::string sysPath;
        std::u16string docSys = X(env.docSysId);
        if (env.sourceKind == "membuf") src.reset(new (fMM) MemBufInputSource((const XMLByte*)doc.bytes.data(), doc.bytes.size(), xc(docSys), false, fMM));
        else if (env.sourceKind == "file") src.reset(new (fMM) LocalFileInputSource(xc(docSys), fMM));
        else if (env.sourceKind == "stdin") src.reset(new (fMM) StdInInputSource(fMM));
        else if (env.sourceKind == "url") { std::u16string u = X(env.docUrl); src.reset(new (fMM) URLInputSource(XMLURL(xc(u), fMM), fMM)); }
        else src.reset(new (fMM) SimInputSource(0, doc.bytes, env.schedFor(doc.name), env.faultsFor(doc.name), xc(docSys), fMM));
        g_run.ev("parse_begin", (uint64_t)fApi, (uint64_t)fCfg.scanner);
        DOMDocument* lsDoc = nullptr;
        try {
            if (env.progressiveSteps >= 0 && !fLs) {
                XMLPScanToken tok; bool ok;
                if (fSax1) ok = fSax1->parseFirst(*src, tok); else if (fSax2) ok = ((SAX2XMLReaderImpl*)fSax2)->parseFirst(*src, tok); else ok = fDom->parseFirst(*src, tok);
                int64_t n = 0; bool more = ok;
                while (more && n < env.progressiveSteps) { g_run.tick(); n++; if (fSax1) more = fSax1->parseNext(tok); else if (fSax2) more = ((SAX2XMLReaderImpl*)fSax2)->parseNext(tok); else more = fDom->parseNext(tok); }
                if (more) { pr.abandoned = true; g_run.fault("progressive_abandon"); if (env.progressiveReset) { if (fSax1) fSax1->parseReset(tok); else if (fSax2) ((SAX2XMLReaderImpl*)fSax2)->parseReset(tok); else fDom->parseReset(tok); } }
                else pr.completed = true;
            } else {
                if (fSax1) fSax1->parse(*src); else if (fSax2) fSax2->parse(*src); else if (fDom) fDom->parse(*src);
                else { Wrapper4InputSource w(src.get(), false, fMM); lsDoc = fLs->parse(&w); }
                pr.completed = true;
            }
        }
        catch (const InjectedSAX&) { pr.exception = "InjectedSAX"; }
        catch (const ForeignAbort&) { pr.exception = "InjectedForeign"; }
        catch (const OutOfMemoryException&) { pr.exception = "OutOfMemory"; }
        catch (const SAXParseException& e) { pr.exception = "SAXParseException"; fRec.line("EXC SAXParseException " + pu8(e.getMessage())); }
        catch (const SAXException& e) { pr.exception = "SAXException"; fRec.line("EXC SAXException " + pu8(e.getMessage())); }
        catch (const XMLException& e) { pr.exception = std::string("XMLException:") + u8(e.getType()); fRec.line("EXC " + pr.exception + " " + pu8(e.getMessage())); }
        catch (const DOMLSException& e) { pr.exception = "DOMLSException"; fRec.line("EXC DOMLSException " + std::to_string((int)e.code) + " " + pu8(e.getMessage())); }
        catch (const DOMException& e) { pr.exception = "DOMException"; fRec.line("EXC DOMException " + std::to_string((int)e.code) + " " + pu8(e.getMessage())); }
        catch (const SimAbort&) { throw; }
        catch (...) { std::type_info* t = abi::__cxa_current_exception_type(); pr.exception = std::string("FOREIGN:") + (t ? demangle(t->name()) : "?"); pr.foreign = true; fRec.line("EXC " + pr.exception); }
        fRec.flush();
        if (keepDomDump && pr.exception.empty() && !pr.abandoned) {
            if (fDom && fDom->getDocument()) fRec.out += dumpDom(fDom->getDocument(), fCfg.psvi);
            if (fLs && lsDoc) fRec.out += dumpDom(lsDoc, fCfg.psvi);
        }
        g_run.ev("parse_end", fRec.callbacks, (uint64_t)fRec.fatals);
        pr.dump.swap(fRec.out); pr.warnings = fRec.warnings; pr.errors = fRec.errors; pr.fatals = fRec.fatals; pr.callbacks = fRec.callbacks; pr.opened = fOpened;
        return pr;
    }
    const ParseCfg& cfg() const { return fCfg; }
    std::vector<std::string> fOpened;
private:
    int fApi; MemoryManager* fMM; Rec fRec; ErrAdapter fErr; DomErrAdapter fDomErr; Sax2Adapter fS2; Sax1Adapter fS1; SimResolver fResolver;
    SAXParser* fSax1 = 0; SAX2XMLReader* fSax2 = 0; XercesDOMParser* fDom = 0; DOMLSParser* fLs = 0; SecurityManager* fSec = 0; ParseCfg fCfg;
};

} // namespace sim
