// WorldGen: seeded generator of a document plus the resources it references, with span metadata
// (construct spans for targeted read boundaries, cut positions that leave a well-formed prefix).
#pragma once
#include "rng.hpp"
#include "json.hpp"
#include <unicode/ucnv.h>
#include <algorithm>
#include <cstring>

namespace sim {

struct Span { std::string kind; size_t b, e; };   // byte offsets [b,e)

struct Resource {
    std::string name;        // literal system id used by references (unique in the world)
    std::string role;        // doc | extsubset | extge | extpe | schema | text
    std::string enc;
    std::string bytes;       // the entity as the parser sees it (expanded)
    std::string core;        // bytes without the padding block; bytes == core[0,padAt) + padUnit*padCount + padExtra + core[padAt,)
    size_t padAt = 0, padCount = 0; std::string padUnit, padExtra;
    size_t pad2At = 0, pad2Count = 0;     // optional second block (same unit) further back, e.g. behind the root element
    void expand() {
        if (padAt > core.size()) padAt = core.size(); if (pad2At > core.size()) pad2At = core.size(); if (pad2At < padAt) pad2At = padAt;
        if (padCount == 0 && padExtra.empty() && pad2Count == 0) { bytes = core; return; }
        bytes.clear(); bytes.reserve(core.size() + padUnit.size() * (padCount + pad2Count) + padExtra.size());
        bytes.append(core, 0, padAt); for (size_t i = 0; i < padCount; i++) bytes += padUnit; bytes += padExtra;
        bytes.append(core, padAt, pad2At - padAt); for (size_t i = 0; i < pad2Count; i++) bytes += padUnit; bytes.append(core, pad2At, std::string::npos);
    }
    void dropPad() { core = bytes; padAt = padCount = pad2At = pad2Count = 0; padUnit.clear(); padExtra.clear(); }
    std::vector<Span> spans;
    std::vector<size_t> safeCuts;   // byte offsets k such that bytes[0,k) is still a well-formed entity of its role
    size_t rootEnd = 0;             // doc: byte offset just after the root end tag
    bool referenced = true;
};

struct World {
    std::vector<Resource> res;       // res[0] is the document entity
    bool hasDoctype = false, hasExtSubset = false, hasExtGE = false, hasExtPE = false, usesNS = false, xml11 = false;
    bool standalone = false;
    int expansionCount = 0;
};

enum Charset { CS_ASCII, CS_LATIN1, CS_FULL };

struct Emitter {
    std::u32string out;
    struct CSpan { std::string kind; size_t b, e; };
    std::vector<CSpan> spans;
    std::vector<size_t> safe;     // char indices
    int level = 0;                // element / conditional-section nesting
    int markup = 0;               // >0 while inside a markup construct
    size_t rootEnd = 0;
    void put(char32_t c) { out += c; if (level == 0 && markup == 0) safe.push_back(out.size()); }
    void puts(const std::string& ascii) { for (unsigned char c : ascii) put(c); }
    void putu(const std::u32string& s) { for (auto c : s) put(c); }
    size_t begin(const std::string& kind) { markup++; spans.push_back(CSpan{ kind, out.size(), 0 }); return spans.size() - 1; }
    void end(size_t id) { spans[id].e = out.size(); markup--; if (level == 0 && markup == 0) safe.push_back(out.size()); }
    void markSafe() { if (level == 0 && markup == 0) safe.push_back(out.size()); }
};

inline bool encodeICU(const std::u32string& s, const char* name, std::string& out, std::vector<size_t>& charToByte) {
    UErrorCode ec = U_ZERO_ERROR; UConverter* cv = ucnv_open(name, &ec); if (U_FAILURE(ec)) return false;
    ucnv_setFromUCallBack(cv, UCNV_FROM_U_CALLBACK_STOP, 0, 0, 0, &ec);
    out.clear(); charToByte.assign(s.size() + 1, 0);
    for (size_t i = 0; i < s.size(); i++) {
        charToByte[i] = out.size();
        UChar u[2]; int n = 0; char32_t c = s[i];
        if (c >= 0x10000) { c -= 0x10000; u[0] = (UChar)(0xD800 + (c >> 10)); u[1] = (UChar)(0xDC00 + (c & 0x3FF)); n = 2; } else { u[0] = (UChar)c; n = 1; }
        char buf[16]; ec = U_ZERO_ERROR; int32_t len = ucnv_fromUChars(cv, buf, sizeof buf, u, n, &ec);
        if (U_FAILURE(ec)) { ucnv_close(cv); return false; }
        out.append(buf, (size_t)len);
    }
    charToByte[s.size()] = out.size(); ucnv_close(cv); return true;
}

// returns false if a character is not representable
inline bool encodeText(const std::u32string& s, const std::string& enc, bool bom, std::string& out, std::vector<size_t>& c2b) {
    out.clear(); c2b.assign(s.size() + 1, 0);
    auto each = [&](auto f) { for (size_t i = 0; i < s.size(); i++) { c2b[i] = out.size(); if (!f(s[i])) return false; } c2b[s.size()] = out.size(); return true; };
    if (enc == "UTF-8") { if (bom) out += "\xEF\xBB\xBF"; return each([&](char32_t c) { if (c < 0x80) out += (char)c; else if (c < 0x800) { out += (char)(0xC0 | (c >> 6)); out += (char)(0x80 | (c & 0x3F)); } else if (c < 0x10000) { out += (char)(0xE0 | (c >> 12)); out += (char)(0x80 | ((c >> 6) & 0x3F)); out += (char)(0x80 | (c & 0x3F)); } else { out += (char)(0xF0 | (c >> 18)); out += (char)(0x80 | ((c >> 12) & 0x3F)); out += (char)(0x80 | ((c >> 6) & 0x3F)); out += (char)(0x80 | (c & 0x3F)); } return true; }); }
    if (enc == "UTF-16LE" || enc == "UTF-16BE" || enc == "UTF-16") {
        bool le = enc != "UTF-16BE"; if (enc == "UTF-16") { le = true; bom = true; }
        auto u16 = [&](unsigned v) { if (le) { out += (char)(v & 0xFF); out += (char)(v >> 8); } else { out += (char)(v >> 8); out += (char)(v & 0xFF); } };
        if (bom) u16(0xFEFF);
        return each([&](char32_t c) { if (c >= 0x10000) { c -= 0x10000; u16(0xD800 + (unsigned)(c >> 10)); u16(0xDC00 + (unsigned)(c & 0x3FF)); } else u16((unsigned)c); return true; });
    }
    if (enc == "UCS-4LE" || enc == "UCS-4BE" || enc == "ISO-10646-UCS-4") {
        bool le = enc == "UCS-4LE";
        auto u32 = [&](uint32_t v) { for (int k = 0; k < 4; k++) out += (char)((v >> (le ? 8 * k : 8 * (3 - k))) & 0xFF); };
        return each([&](char32_t c) { u32((uint32_t)c); return true; });
    }
    if (enc == "ISO-8859-1") return each([&](char32_t c) { if (c > 0xFF) return false; out += (char)c; return true; });
    if (enc == "US-ASCII") return each([&](char32_t c) { if (c > 0x7F) return false; out += (char)c; return true; });
    const char* icu = enc == "IBM037" ? "ibm-37" : enc == "IBM1140" ? "ibm-1140" : enc == "IBM1047" ? "ibm-1047" : enc.c_str();
    return encodeICU(s, icu, out, c2b);
}

struct GenOpts {
    int maxDepth = 4; int maxChildren = 4; bool allowDoctype = true; bool allowExternal = true; bool allowNS = true;
    bool forceUtf8 = false; int padTo = 0; int padBytes = 0;   // padBytes: same, in bytes of the chosen encoding            // pad (comment/text) so the document reaches about this many chars
    bool allowXml11 = true; bool trailingMisc = true; bool bigText = false;
    bool dupAttr = false;      // now and then write an attribute twice (well-formedness error inside a start tag)
    bool idAttrs = false; std::vector<std::u32string> presetNames;    // shared element names across the documents of one history
    int alignMode = 0;            // 0 off, 1 = align a construct to a 16384-unit character-buffer refill point, 2 = to a 49152-byte raw refill point
    int alignMultiple = 1; int alignDelta = 0; std::string alignKind;   // which multiple, how many units before it, construct kind ("" = any)
    int padAfterBytes = 0;        // additional block of pad comments right behind the root element
};

class WorldGen {
public:
    WorldGen(Rng r, const GenOpts& o) : rng(r), opt(o) {}
    World make() {
        World w; pickEncoding();
        xml11 = opt.allowXml11 && rng.chance(1, 10);
        w.xml11 = xml11;
        useNS = opt.allowNS && rng.chance(1, 2); w.usesNS = useNS;
        bool doctype = opt.allowDoctype && rng.chance(3, 5);
        w.hasDoctype = doctype;
        // names
        int nNames = rng.range(2, 6); for (int i = 0; i < nNames; i++) elemNames.push_back(genName());
        if (!opt.presetNames.empty()) { elemNames = opt.presetNames; if (cs != CS_FULL) for (auto& n : elemNames) for (auto& c : n) if (c > (cs == CS_ASCII || sjis ? 0x7Fu : 0xFFu)) c = U'n'; }
        rootName = elemNames[0]; hasDoctypeFlag = doctype;
        // entities
        if (doctype) {
            int nEnt = rng.small(4);
            for (int i = 0; i < nEnt; i++) { Ent e; e.name = U"e" + genNameTail(2) + (char32_t)(U'0' + i); e.external = opt.allowExternal && rng.chance(1, 3); ents.push_back(e); }
        }
        Emitter em;
        // ---- prolog
        bool needDecl = !(enc == "UTF-8" || enc == "UTF-16LE" || enc == "UTF-16BE" || enc == "UTF-16") || xml11 || (ucs4);
        bool decl = needDecl || rng.chance(3, 5);
        bool utf16NoBom = (enc == "UTF-16LE" || enc == "UTF-16BE") && !bom;
        if (utf16NoBom) decl = true;   // without BOM the declaration is what lets the parser auto-sense
        if (decl) {
            size_t id = em.begin("xmldecl");
            em.puts("<?xml version="); quoted(em, xml11 ? "1.1" : "1.0");
            if (needDecl || rng.chance(2, 3)) { em.puts(" encoding="); quoted(em, declEncName()); }
            if (rng.chance(1, 4)) { bool sa = !doctype && rng.chance(1, 2); w.standalone = sa; em.puts(" standalone="); quoted(em, sa ? "yes" : "no"); }
            if (rng.chance(1, 4)) em.puts(" ");
            em.puts("?>"); em.end(id);
        }
        if (opt.padBytes > 0) opt.padTo = opt.padBytes / (ucs4 ? 4 : enc.rfind("UTF-16", 0) == 0 ? 2 : 1);
        if (opt.alignMode && opt.padTo <= 0) opt.padTo = 8;
        if (opt.padTo > 0) padAtChar = em.out.size();     // materialised by finish() as a block of short comments
        misc(em, 2);
        if (doctype) genDoctype(em, w);
        misc(em, 2);
        // ---- root
        genElement(em, rootName, 0, true);
        em.rootEnd = em.out.size();
        if (opt.trailingMisc) misc(em, 3);
        Resource doc; doc.name = "doc.xml"; doc.role = "doc"; finish(em, doc);
        w.res.insert(w.res.begin(), doc);
        for (auto& r : pending) w.res.push_back(r);
        w.hasExtSubset = hasExtSubset; w.hasExtGE = hasExtGE; w.hasExtPE = hasExtPE;
        return w;
    }

    // Variant with a leading pad so that the body of the document crosses the 16K-char / 48K-byte refill points.
    std::string alignedKind; size_t padAfterChars = 0;
    int leadPad = 0; size_t padAtChar = (size_t)-1; bool fallback = false;   // fallback: some character was not representable in the chosen encoding
    std::string enc; bool bom = false; bool ucs4 = false;

private:
    Rng rng; GenOpts opt; bool xml11 = false, useNS = false; Charset cs = CS_FULL; bool sjis = false;
    std::vector<std::u32string> elemNames; std::u32string rootName; bool hasDoctypeFlag = false; int nextId = 3;
public:
    const std::vector<std::u32string>& names() const { return elemNames; }
private:
    struct Ent { std::u32string name; bool external = false; bool declared = false; bool unparsed = false; bool markup = false; };
    std::vector<Ent> ents; std::vector<Resource> pending;
    bool hasExtSubset = false, hasExtGE = false, hasExtPE = false;
    std::vector<std::u32string> prefixes;

    void pickEncoding() {
        if (opt.forceUtf8) { enc = "UTF-8"; bom = false; cs = CS_FULL; return; }
        unsigned r = (unsigned)rng.below(100);
        if (r < 50) { enc = "UTF-8"; bom = false; cs = CS_FULL; }
        else if (r < 56) { enc = "UTF-8"; bom = true; cs = CS_FULL; }
        else if (r < 63) { enc = "UTF-16LE"; bom = true; cs = CS_FULL; }
        else if (r < 70) { enc = "UTF-16BE"; bom = true; cs = CS_FULL; }
        else if (r < 73) { enc = "UTF-16LE"; bom = false; cs = CS_FULL; }
        else if (r < 76) { enc = "UTF-16BE"; bom = false; cs = CS_FULL; }
        else if (r < 84) { enc = "ISO-8859-1"; cs = CS_LATIN1; }
        else if (r < 88) { enc = "windows-1252"; cs = CS_LATIN1; }
        else if (r < 90) { enc = "US-ASCII"; cs = CS_ASCII; }
        else if (r < 92) { enc = "Shift_JIS"; cs = CS_LATIN1; sjis = true; }      // a multi-byte encoding that goes through the stateful ICU transcoder (same random pattern as the Latin-1 class, other letters)
        else if (r < 94) { enc = "UCS-4LE"; cs = CS_FULL; ucs4 = true; }
        else if (r < 96) { enc = "UCS-4BE"; cs = CS_FULL; ucs4 = true; }
        else if (r < 98) { enc = "IBM037"; cs = CS_LATIN1; }
        else { enc = "IBM1140"; cs = CS_LATIN1; }
    }
    std::string declEncName() const {
        if (enc == "UTF-16LE" || enc == "UTF-16BE") return bom ? "UTF-16" : enc;
        if (enc == "UCS-4LE" || enc == "UCS-4BE") return "ISO-10646-UCS-4";
        return enc;
    }
    void quoted(Emitter& em, const std::string& s) { char q = rng.coin() ? '"' : '\''; em.put((char32_t)q); em.puts(s); em.put((char32_t)q); }
    char32_t letter() {
        unsigned r = (unsigned)rng.below(100);
        if (cs == CS_ASCII || r < 80) return (char32_t)(U'a' + rng.below(26));
        if (cs == CS_LATIN1 || r < 92) { static const char32_t l[] = { 0xE9, 0xF1, 0xFC, 0xC0, 0xDF, 0xF8 }; static const char32_t jl[] = { 0x3042, 0x30A2, 0x6F22, 0x5B57, 0x4E00, 0x3093 }; size_t li = rng.below(6); return sjis ? jl[li] : l[li]; }
        static const char32_t b[] = { 0x6F22, 0x5B57, 0x03B1, 0x0416, 0x05D0, 0x0E01 }; return b[rng.below(6)];
    }
    std::u32string genNameTail(int max) { std::u32string s; int n = rng.range(0, max); for (int i = 0; i < n; i++) { unsigned r = (unsigned)rng.below(20); if (r == 0) s += U'-'; else if (r == 1) s += U'.'; else if (r == 2) s += (char32_t)(U'0' + rng.below(10)); else if (r == 3) s += U'_'; else s += letter(); } return s; }
    std::u32string genName() { std::u32string s; s += rng.chance(1, 12) ? U'_' : letter(); s += genNameTail(5); return s; }
    void ws(Emitter& em, bool required) { int n = required ? rng.range(1, 2) : rng.small(2); for (int i = 0; i < n; i++) { unsigned r = (unsigned)rng.below(10); em.put(r < 6 ? U' ' : r < 8 ? U'\n' : r < 9 ? U'\t' : U'\r'); } }
    char32_t textChar() {
        unsigned r = (unsigned)rng.below(100);
        if (r < 55) return (char32_t)(U'a' + rng.below(26));
        if (r < 70) return U' ';
        if (r < 74) return (char32_t)(U'0' + rng.below(10));
        if (r < 78) return U'\n';
        if (r < 80) return U'\r';
        if (r < 81) return U'\t';
        if (r < 83) { static const char32_t p[] = { U'.', U',', U';', U'-', U'=', U'/', U'!', U'?', U']', U'[', U'>' }; return p[rng.below(11)]; }
        if (cs == CS_ASCII) return (char32_t)(U'A' + rng.below(26));
        if (cs == CS_LATIN1 || r < 90) { char32_t v = (char32_t)(0xA1 + rng.below(0xFF - 0xA1)); return sjis ? (char32_t)(0x3041 + (v - 0xA1) % 0x52) : v; }      // (Shift_JIS: hiragana instead of Latin-1 symbols)
        if (r < 96) { static const char32_t b[] = { 0x6F22, 0x5B57, 0x03B1, 0x0416, 0x20AC, 0x2028, 0xFFFD, 0xE000, 0xD7FF, 0x0100, 0x07FF, 0x0800 }; return b[rng.below(12)]; }
        static const char32_t sp[] = { 0x10000, 0x10400, 0x1F600, 0x10FFFF, 0x2F800 }; return sp[rng.below(5)];
    }
    // Plain run of character data; never contains '<', '&' or the sequence "]]>"
    void text(Emitter& em, int maxLen, bool inAttr = false, char32_t quote = 0) {
        int n = rng.range(1, maxLen);
        for (int i = 0; i < n; i++) {
            char32_t c = textChar();
            if (c == U'>' && em.out.size() >= 2 && em.out[em.out.size() - 1] == U']' && em.out[em.out.size() - 2] == U']') c = U'x';
            if (inAttr && (c == quote)) c = U'q';
            if (c == U'\r' && i + 1 < n && rng.coin()) { size_t id = em.begin("crlf"); em.markup--; em.put(U'\r'); em.put(U'\n'); em.markup++; em.end(id); i++; continue; }
            if (c >= 0x80 && enc == "UTF-8") { size_t id = em.begin("mbchar"); em.markup--; em.out += c; em.markup++; em.end(id); continue; }
            if (c >= 0x10000 && (enc.rfind("UTF-16", 0) == 0)) { size_t id = em.begin("surrogate"); em.markup--; em.out += c; em.markup++; em.end(id); continue; }
            em.put(c);
        }
    }
    void charRef(Emitter& em, bool safeOnly = false) {
        size_t id = em.begin("charref");
        static const char32_t cps[] = { 0x41, 0x3C, 0x26, 0x20, 0xE9, 0x20AC, 0x10400, 0x9, 0xA, 0xD, 0x10FFFF, 0xD7FF };
        char32_t c = cps[rng.below(12)]; char buf[24];
        if (safeOnly && (c == 0x3C || c == 0x26)) c = 0x42;
        if (rng.coin()) snprintf(buf, sizeof buf, "&#x%X;", (unsigned)c); else snprintf(buf, sizeof buf, "&#%u;", (unsigned)c);
        em.puts(buf); em.end(id);
    }
    bool entRef(Emitter& em, bool inAttr) {
        std::vector<size_t> ok; for (size_t i = 0; i < ents.size(); i++) if (ents[i].declared && !ents[i].unparsed && !(inAttr && (ents[i].external || ents[i].markup))) ok.push_back(i);
        unsigned r = (unsigned)rng.below(10);
        size_t id = em.begin("entref");
        if (ok.empty() || r < 4) { static const char* pre[] = { "&lt;", "&amp;", "&gt;", "&quot;", "&apos;" }; em.puts(pre[rng.below(5)]); }
        else { em.put(U'&'); em.putu(ents[ok[rng.below(ok.size())]].name); em.put(U';'); }
        em.end(id);
        // character data that would complete a markup if the entity ended right after a '<' (a torn entity): "<" + "b/>" ...
        if (!inAttr && rng.below(5) == 0) { static const char* tails[] = { "b/>", "!-- c -->", "?pi d?>" }; em.puts(tails[rng.below(3)]); }
        return true;
    }
    void comment(Emitter& em) {
        size_t id = em.begin("comment"); em.puts("<!--");
        int n = rng.range(0, 12); for (int i = 0; i < n; i++) { char32_t c = textChar(); if (c == U'-') c = U'~'; em.out += c; }
        em.puts("-->"); em.end(id);
    }
    void pi(Emitter& em) {
        size_t id = em.begin("pi"); em.puts("<?"); std::u32string t = genName(); if (t.size() >= 3 && (t[0] | 32) == U'x' && (t[1] | 32) == U'm' && (t[2] | 32) == U'l') t[0] = U'p'; em.putu(t);
        if (rng.coin()) { ws(em, true); int n = rng.range(0, 10); for (int i = 0; i < n; i++) { char32_t c = textChar(); if (c == U'?') c = U'!'; em.out += c; } }
        em.puts("?>"); em.end(id);
    }
    void misc(Emitter& em, int max) { int n = rng.small(max); for (int i = 0; i < n; i++) { unsigned r = (unsigned)rng.below(3); if (r == 0) comment(em); else if (r == 1) pi(em); else ws(em, true); } if (rng.chance(1, 3)) ws(em, false); }
    void cdata(Emitter& em) {
        size_t id = em.begin("cdata"); em.puts("<![CDATA[");
        int n = rng.range(0, 10); for (int i = 0; i < n; i++) { char32_t c = textChar(); if (rng.chance(1, 8)) c = U"<&]>"[rng.below(4)]; if (c == U'>' && em.out.size() >= 2 && em.out[em.out.size() - 1] == U']' && em.out[em.out.size() - 2] == U']') c = U'x'; em.out += c; }
        em.puts("]]>"); em.end(id);
    }
    void attrValue(Emitter& em) {
        char32_t q = rng.coin() ? U'"' : U'\''; em.put(q);
        int parts = rng.small(3);
        if (rng.chance(1, 8)) text(em, 300, true, q);       // now and then a value far longer than the fixed-size buffers attribute handling uses (normalisation, validation)
        for (int i = 0; i <= parts; i++) { unsigned r = (unsigned)rng.below(10); if (r < 6) text(em, 8, true, q); else if (r < 8) charRef(em); else entRef(em, true); }
        // '<' is illegal in attribute values: text() never produces it
        em.put(q);
    }
    std::u32string qname(const std::u32string& local) { if (useNS && !prefixes.empty() && rng.chance(1, 3)) return prefixes[rng.below(prefixes.size())] + U":" + local; return local; }

    void genElement(Emitter& em, const std::u32string& name, int depth, bool isRoot) {
        size_t pushed = 0;
        std::u32string qn;
        std::vector<std::pair<std::u32string, int>> decls;   // ns decls on this element
        if (useNS && (isRoot || rng.chance(1, 4))) { int n = rng.range(isRoot ? 1 : 0, 2); for (int i = 0; i < n; i++) { std::u32string p = U"p" + genNameTail(1) + (char32_t)(U'a' + prefixes.size() % 26); prefixes.push_back(p); pushed++; decls.emplace_back(p, (int)rng.below(3)); } }
        qn = qname(name);
        bool empty = depth >= opt.maxDepth || rng.chance(1, 5);
        size_t id = em.begin(empty ? "emptytag" : "stag");
        em.put(U'<'); em.putu(qn);
        std::vector<std::u32string> used;
        for (auto& d : decls) { ws(em, true); em.puts("xmlns:"); em.putu(d.first); ws(em, false); em.put(U'='); ws(em, false); quoted(em, std::string("urn:ns") + (char)('0' + d.second)); }
        if (useNS && rng.chance(1, 5)) { ws(em, true); em.puts("xmlns"); em.put(U'='); quoted(em, rng.chance(1, 4) ? "" : "urn:dflt"); }
        int na = rng.small(3);
        for (int i = 0; i < na; i++) { std::u32string an = genName(); if (an == U"xmlns") continue; if (useNS && !prefixes.empty() && rng.chance(1, 4)) an = prefixes.back() + U":" + an; if (std::find(used.begin(), used.end(), an) != used.end()) continue; used.push_back(an); ws(em, true); em.putu(an); ws(em, false); em.put(U'='); ws(em, false); attrValue(em);
            if (opt.dupAttr && rng.chance(1, 6)) { ws(em, true); em.putu(an); em.put(U'='); attrValue(em); }      // the same attribute twice: a fatal error in the middle of a start tag (C15 histories)
        }
        if (rng.chance(1, 6) && std::find(used.begin(), used.end(), U"xml:space") == used.end()) { ws(em, true); em.puts("xml:space="); quoted(em, rng.coin() ? "preserve" : "default"); }
        // ID / IDREF attributes (declared by declsBlock for some element types): values come from a small pool so that
        // different documents of one history share them; now and then a duplicate ID or a dangling IDREF (validity errors)
        if (opt.idAttrs && hasDoctypeFlag && rng.chance(1, 3) && std::find(used.begin(), used.end(), U"id") == used.end()) { ws(em, true); em.puts("id="); int v = rng.chance(1, 8) ? (int)rng.below(3) : nextId++; quoted(em, "i" + std::to_string(v)); }
        if (opt.idAttrs && hasDoctypeFlag && rng.chance(1, 4) && std::find(used.begin(), used.end(), U"ref") == used.end()) { ws(em, true); em.puts("ref="); quoted(em, (rng.chance(1, 8) ? "i" + std::string(100 + rng.below(60), 'z') : std::string("i")) + std::to_string((int)rng.below(rng.chance(1, 6) ? 40 : (unsigned)std::max(1, nextId)))); }      // (now and then an IDREF value of 100+ characters: tokenised attribute types are normalised into a fixed-size buffer up to that length)
        ws(em, false);
        if (empty) { em.puts("/>"); em.end(id); }
        else {
            em.put(U'>'); em.level++; em.end(id);
            int n = rng.range(0, opt.maxChildren + (opt.bigText ? 4 : 0));
            for (int i = 0; i < n; i++) {
                unsigned r = (unsigned)rng.below(100);
                if (r < 35) text(em, opt.bigText ? 200 : 20);
                else if (r < 60) genElement(em, elemNames[rng.below(elemNames.size())], depth + 1, false);
                else if (r < 68) charRef(em);
                else if (r < 78) entRef(em, false);
                else if (r < 86) cdata(em);
                else if (r < 93) comment(em);
                else pi(em);
            }
            size_t id2 = em.begin("etag"); em.puts("</"); em.putu(qn); ws(em, false); em.level--; em.put(U'>'); em.end(id2);
        }
        for (size_t i = 0; i < pushed; i++) prefixes.pop_back();
    }

    void entityValue(Emitter& em, size_t upto, Ent& self) {
        char32_t q = rng.coin() ? U'"' : U'\''; em.put(q);
        int parts = rng.small(3);
        for (int i = 0; i <= parts; i++) {
            unsigned r = (unsigned)rng.below(10);
            if (r < 5) { int n = rng.range(1, 8); for (int k = 0; k < n; k++) { char32_t c = textChar(); if (c == q || c == U'%' || c == U'&' || c == U'<' || c == U']') c = U'v'; em.out += c; } }
            else if (r < 6) { em.puts("<i>x</i>"); self.markup = true; }
            else if (r < 8) charRef(em, true);
            else { std::vector<size_t> ok; for (size_t k = 0; k < upto; k++) if (ents[k].declared && !ents[k].unparsed && !ents[k].external) ok.push_back(k); if (!ok.empty()) { size_t pick = ok[rng.below(ok.size())]; if (ents[pick].markup) self.markup = true; em.put(U'&'); em.putu(ents[pick].name); em.put(U';'); } }
        }
        em.put(q);
    }
    void contentModel(Emitter& em) {
        unsigned r = (unsigned)rng.below(10);
        if (r < 4) em.puts("ANY");
        else if (r < 5) em.puts("EMPTY");
        else if (r < 8) { em.puts("(#PCDATA"); int n = rng.small(3); std::vector<std::u32string> u; for (int i = 0; i < n; i++) { auto& nm = elemNames[rng.below(elemNames.size())]; if (std::find(u.begin(), u.end(), nm) != u.end()) continue; u.push_back(nm); em.put(U'|'); em.putu(nm); } em.puts(n ? ")*" : (rng.coin() ? ")*" : ")")); }
        else { em.put(U'('); int n = rng.range(1, 3); char sep = rng.coin() ? ',' : '|'; for (int i = 0; i < n; i++) { if (i) em.put((char32_t)sep); em.putu(elemNames[rng.below(elemNames.size())]); if (rng.coin()) em.put(U"?*+"[rng.below(3)]); } em.put(U')'); if (rng.coin()) em.put(U"?*+"[rng.below(3)]); }
    }
    void declsBlock(Emitter& em, World& w, bool external) {
        // element declarations
        for (auto& n : elemNames) if (rng.chance(3, 4)) { size_t id = em.begin("elementdecl"); em.puts("<!ELEMENT"); ws(em, true); em.putu(n); ws(em, true); contentModel(em); ws(em, false); em.put(U'>'); em.end(id); if (rng.coin()) ws(em, true); }
        // attlists
        if (opt.idAttrs) for (auto& n : elemNames) if (rng.chance(2, 3)) { size_t id = em.begin("attlist"); em.puts("<!ATTLIST "); em.putu(n); em.puts(" id ID #IMPLIED ref IDREF #IMPLIED>"); em.end(id); }
        int na = rng.small(3);
        for (int i = 0; i < na; i++) {
            size_t id = em.begin("attlist"); em.puts("<!ATTLIST"); ws(em, true); em.putu(elemNames[rng.below(elemNames.size())]); ws(em, true); em.putu(genName()); ws(em, true);
            unsigned t = (unsigned)rng.below(6); static const char* ty[] = { "CDATA", "NMTOKEN", "NMTOKENS", "ID", "(a|b|c)", "IDREF" }; em.puts(ty[t]); ws(em, true);
            unsigned d = (unsigned)rng.below(4);
            if (t == 3) em.puts(rng.coin() ? "#IMPLIED" : "#REQUIRED");
            else if (d == 0) em.puts("#IMPLIED"); else if (d == 1) em.puts("#REQUIRED"); else { if (d == 3) { em.puts("#FIXED"); ws(em, true); } quoted(em, t == 4 ? "a" : "dflt"); }
            ws(em, false); em.put(U'>'); em.end(id); if (rng.coin()) ws(em, true);
        }
        // entities
        for (size_t i = 0; i < ents.size(); i++) {
            if (ents[i].declared || (external != rng.coin() && !external)) { /* declare some in internal, rest in external */ }
            if (ents[i].declared) continue;
            if (!external && w.hasExtSubset && rng.chance(1, 3)) continue;   // leave for the external subset
            size_t id = em.begin("entitydecl"); em.puts("<!ENTITY"); ws(em, true); em.putu(ents[i].name); ws(em, true);
            if (ents[i].external) {
                Resource r = genExtGE(i);
                bool pub = rng.chance(1, 4); if (pub) { em.puts("PUBLIC"); ws(em, true); quoted(em, "-//SIM//ENT//EN"); ws(em, true); } else { em.puts("SYSTEM"); ws(em, true); }
                quoted(em, r.name); pending.push_back(r); hasExtGE = true;
            } else entityValue(em, i, ents[i]);
            ws(em, false); em.put(U'>'); em.end(id); ents[i].declared = true; if (rng.coin()) ws(em, true);
        }
        if (rng.chance(1, 5)) { size_t id = em.begin("notationdecl"); em.puts("<!NOTATION n1 SYSTEM "); quoted(em, "viewer.exe"); em.put(U'>'); em.end(id);
            if (rng.coin()) { Ent u; u.name = U"unp" + genNameTail(1); u.unparsed = true; u.declared = true; size_t id2 = em.begin("entitydecl"); em.puts("<!ENTITY "); em.putu(u.name); em.puts(" SYSTEM "); quoted(em, "pic.gif"); em.puts(" NDATA n1>"); em.end(id2); ents.push_back(u); } }
        if (rng.chance(1, 4)) comment(em);
        if (rng.chance(1, 5)) pi(em);
    }
    Resource genExtGE(size_t idx) {
        Emitter em;
        bool td = (enc != "UTF-8" && enc.rfind("UTF-16", 0) != 0) || rng.chance(1, 3);
        bool utf16NoBom = (enc == "UTF-16LE" || enc == "UTF-16BE") && !bom; if (utf16NoBom) td = true;
        if (td) { size_t id = em.begin("textdecl"); em.puts("<?xml "); if (rng.coin()) { em.puts("version="); quoted(em, xml11 ? "1.1" : "1.0"); em.put(U' '); } em.puts("encoding="); quoted(em, declEncName()); em.puts("?>"); em.end(id); }
        int n = rng.range(0, 4);
        bool saveNS = useNS; useNS = false;
        for (int i = 0; i < n; i++) { unsigned r = (unsigned)rng.below(10); if (r < 5) text(em, 12); else if (r < 7) genElement(em, elemNames[rng.below(elemNames.size())], opt.maxDepth - 1, false); else if (r < 8) charRef(em); else if (r < 9) comment(em); else cdata(em); }
        useNS = saveNS;
        Resource r; r.name = "ent" + std::to_string(idx) + ".ent"; r.role = "extge"; finish(em, r); return r;
    }
    void genDoctype(Emitter& em, World& w) {
        size_t id = em.begin("doctype");
        em.puts("<!DOCTYPE"); ws(em, true); em.putu(useNS ? rootName : rootName);
        bool ext = opt.allowExternal && rng.chance(2, 5);
        w.hasExtSubset = hasExtSubset = ext;
        std::string extName = "ext.dtd";
        if (ext) { ws(em, true); if (rng.chance(1, 4)) { em.puts("PUBLIC"); ws(em, true); quoted(em, "-//SIM//DTD//EN"); ws(em, true); } else { em.puts("SYSTEM"); ws(em, true); } quoted(em, extName); }
        bool internal = !ext || rng.chance(2, 3);
        bool pe = false;
        if (internal) {
            ws(em, false); em.put(U'['); em.markup--;   // declarations inside are their own spans
            em.level++;
            if (rng.chance(1, 3)) ws(em, true);
            if (rng.chance(1, 4)) { // parameter entity, internal
                size_t i2 = em.begin("pedecl"); em.puts("<!ENTITY % pe1 "); quoted(em, "<!ELEMENT pedeclared ANY>"); em.put(U'>'); em.end(i2); pe = true; }
            if (opt.allowExternal && rng.chance(1, 5)) { Resource r = genExtPE(); size_t i2 = em.begin("pedecl"); em.puts("<!ENTITY % xpe SYSTEM "); quoted(em, r.name); em.put(U'>'); em.end(i2); size_t i3 = em.begin("peref"); em.puts("%xpe;"); em.end(i3); pending.push_back(r); hasExtPE = true; }
            declsBlock(em, w, false);
            if (pe) { size_t i3 = em.begin("peref"); em.puts("%pe1;"); em.end(i3); }
            em.level--; em.markup++;
            em.put(U']');
        }
        ws(em, false); em.put(U'>'); em.end(id);
        if (ext) {
            Emitter xe;
            bool td = (enc != "UTF-8" && enc.rfind("UTF-16", 0) != 0) || rng.chance(1, 3);
            bool utf16NoBom = (enc == "UTF-16LE" || enc == "UTF-16BE") && !bom; if (utf16NoBom) td = true;
            if (td) { size_t i2 = xe.begin("textdecl"); xe.puts("<?xml "); if (rng.coin()) { xe.puts("version="); quoted(xe, xml11 ? "1.1" : "1.0"); xe.put(U' '); } xe.puts("encoding="); quoted(xe, declEncName()); xe.puts("?>"); xe.end(i2); }
            if (rng.chance(1, 3)) { size_t i2 = xe.begin("condsect"); xe.puts("<![INCLUDE["); xe.level++; xe.markup--; xe.puts("<!ELEMENT cond1 ANY>"); xe.markup++; xe.level--; xe.puts("]]>"); xe.end(i2); }
            if (rng.chance(1, 4)) { size_t i2 = xe.begin("condsect"); xe.puts("<![IGNORE[ <!ELEMENT ign (a,b)> <![INCLUDE[ x ]]> ]]>"); xe.end(i2); }
            declsBlock(xe, w, true);
            Resource r; r.name = extName; r.role = "extsubset"; finish(xe, r); pending.push_back(r);
        }
        // any entity still undeclared stays undeclared: references are never generated to undeclared ones
    }
    Resource genExtPE() {
        Emitter em; bool td = (enc != "UTF-8" && enc.rfind("UTF-16", 0) != 0);
        bool utf16NoBom = (enc == "UTF-16LE" || enc == "UTF-16BE") && !bom; if (utf16NoBom) td = true;
        if (td) { size_t id = em.begin("textdecl"); em.puts("<?xml encoding="); quoted(em, declEncName()); em.puts("?>"); em.end(id); }
        { size_t id = em.begin("elementdecl"); em.puts("<!ELEMENT fromxpe ANY>"); em.end(id); }
        if (rng.coin()) { size_t id = em.begin("attlist"); em.puts("<!ATTLIST fromxpe a CDATA 'v'>"); em.end(id); }
        Resource r; r.name = "xpe.ent"; r.role = "extpe"; finish(em, r); return r;
    }
    void finish(Emitter& em, Resource& r) {
        std::vector<size_t> c2b; r.enc = enc;
        bool useBom = bom;   // external entities in UTF-16 need their own BOM (or text decl)
        std::string encUsed = enc;
        if (!encodeText(em.out, enc, useBom, r.core, c2b)) { // unrepresentable: fall back to UTF-8 (keeps the world usable)
            encodeText(em.out, "UTF-8", false, r.core, c2b); r.enc = "UTF-8(fallback)"; fallback = true; encUsed = "UTF-8"; }
        // Padding (document entity only): many short comments, kept as (unit x count + extra) so that neither the
        // generator nor the plan ever holds a 50-100K string more than once (large allocations are what makes
        // sanitizer workers slow in this VM). Offsets of everything behind the pad are shifted.
        if (r.role == "doc" && padAtChar != (size_t)-1 && opt.padTo > 0) {
            std::u32string unit = U"<!--pad pad pad pad pad pad pad pad pad pad pad pad pad pad-->\n";   // 64 chars
            std::vector<size_t> tmp; std::string ub; encodeText(unit, encUsed, false, ub, tmp);
            size_t bpc = ub.size() / unit.size();
            // Aligned targeting: choose the pad so that one chosen construct of the body starts `alignDelta` units before a
            // refill point - a multiple of 16384 UTF-16 units counted from the end of the XML declaration (character
            // buffer), or a multiple of 49152 bytes (raw buffer). The exact refill position drifts by the few unread
            // characters carried over at each refill, so callers sweep alignDelta over a small window.
            if (opt.alignMode && !em.spans.empty()) {
                std::vector<size_t> cand; for (size_t i = 0; i < em.spans.size(); i++) if (em.spans[i].b >= padAtChar && em.spans[i].kind != "xmldecl" && (opt.alignKind.empty() || em.spans[i].kind == opt.alignKind)) cand.push_back(i);
                if (cand.empty()) for (size_t i = 0; i < em.spans.size(); i++) if (em.spans[i].b >= padAtChar && em.spans[i].kind != "xmldecl") cand.push_back(i);
                if (!cand.empty()) {
                    const Emitter::CSpan& sp = em.spans[cand[rng.below(cand.size())]]; alignedKind = sp.kind;
                    long long target = (long long)opt.alignMultiple * (opt.alignMode == 1 ? 16384 : 49152) - opt.alignDelta;
                    long long have;
                    if (opt.alignMode == 1) { size_t declEnd = (!em.spans.empty() && em.spans[0].kind == "xmldecl") ? em.spans[0].e : 0; have = 0; for (size_t i = declEnd; i < sp.b; i++) have += em.out[i] >= 0x10000 ? 2 : 1; }
                    else have = (long long)c2b[sp.b];
                    long long padUnits = target - have; if (opt.alignMode == 2) padUnits /= (long long)bpc;
                    if (padUnits >= 8) opt.padTo = (int)padUnits;
                }
            }
            size_t want = (size_t)opt.padTo * bpc; size_t cnt = want / ub.size(); size_t rem = (want - cnt * ub.size()) / bpc;
            if (rem > 0 && rem < 8 && cnt > 0) { cnt--; rem += unit.size(); }     // the fine-tuning comment needs at least 8 characters
            std::string eb; if (rem >= 8) { std::u32string ex = U"<!--"; ex.append(rem - 7, U'x'); ex += U"-->"; encodeText(ex, encUsed, false, eb, tmp); }
            r.padAt = c2b[padAtChar]; r.padUnit = ub; r.padCount = cnt; r.padExtra = eb;
            size_t shift = ub.size() * cnt + eb.size();
            for (size_t i = padAtChar; i < c2b.size(); i++) c2b[i] += shift;
            // optional second block right behind the root element: gives the reader enough following bytes for full refills
            if (opt.padAfterBytes > 0 && em.rootEnd > padAtChar && em.rootEnd <= em.out.size()) {
                size_t cnt2 = (size_t)opt.padAfterBytes / ub.size();
                r.pad2At = c2b[em.rootEnd] - shift; r.pad2Count = cnt2; size_t shift2 = ub.size() * cnt2;
                for (size_t i = em.rootEnd + 1; i < c2b.size(); i++) c2b[i] += shift2;
                padAfterChars = cnt2 * unit.size();
            }
        }
        r.expand();
        for (auto& s : em.spans) r.spans.push_back(Span{ s.kind, c2b[s.b], c2b[std::min(s.e, em.out.size())] });
        std::sort(em.safe.begin(), em.safe.end()); em.safe.erase(std::unique(em.safe.begin(), em.safe.end()), em.safe.end());
        if (r.role != "doc") { r.safeCuts.push_back(0); r.safeCuts.push_back(c2b[0]); }     // an empty external entity / subset (or just its BOM) is well-formed
        for (auto i : em.safe) r.safeCuts.push_back(c2b[i]);
        r.rootEnd = c2b[std::min(em.rootEnd, em.out.size())];
    }
};

// ---- byte/token level mutation (for malformed inputs); returns a description
inline std::string mutateBytes(Rng& rng, std::string& b) {
    if (b.empty()) return "none";
    static const char* toks[] = { "<", "&", "]]>", "<!--", "--", "\xff", "&#0;", "&#xD800;", "<?xml version='1.0'?>", "\"", "'", ">", "</", "<![CDATA[", "&#x110000;", "\xC0\x80", "\xED\xA0\x80", "%", ";", "<!DOCTYPE x [", "\xEF\xBB\xBF", "\xFE\xFF", "=", " ", "\r" };
    unsigned r = (unsigned)rng.below(8); size_t pos = rng.below(b.size());
    if (r >= 6) {      // structure-aware: drop or exchange one of the punctuation characters that carry the grammar (the '*' behind a mixed content model, a ')' , a quote ...)
        static const char punct[] = "*)>(|,?+;\"'=[]%#!/"; std::vector<size_t> at; for (size_t i = 0; i < b.size(); i++) if (strchr(punct, b[i]) && b[i]) at.push_back(i);
        if (r == 6 && rng.chance(1, 3)) { std::vector<size_t> star; for (size_t i = 0; i + 1 < b.size(); i++) if (b[i] == ')' && b[i + 1] == '*') star.push_back(i + 1); if (!star.empty()) { b.erase(star[rng.below(star.size())], 1); return "drop-content-model-star"; } }
        if (!at.empty()) { size_t p = at[rng.below(at.size())]; if (r == 6) { b.erase(p, 1); return "drop-punctuation"; } b[p] = punct[rng.below(sizeof punct - 1)]; return "swap-punctuation"; }
        r = 0; }
    switch (r) {
    case 0: { size_t n = 1 + rng.below(std::min<size_t>(8, b.size() - pos)); b.erase(pos, n); return "delete"; }
    case 1: { size_t n = 1 + rng.below(std::min<size_t>(12, b.size() - pos)); b.insert(pos, b.substr(pos, n)); return "duplicate"; }
    case 2: { b[pos] = (char)(b[pos] ^ (1 << rng.below(8))); return "bitflip"; }
    case 3: { b.insert(pos, toks[rng.below(sizeof toks / sizeof *toks)]); return "insert-token"; }
    case 4: { b[pos] = (char)rng.below(256); return "setbyte"; }
    default: { size_t q = rng.below(b.size()); std::swap(b[pos], b[q]); return "swap"; }
    }
}

} // namespace sim
