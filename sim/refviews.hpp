// Reference models of the live DOM views over RefDOM (C14): NodeIterator and TreeWalker (DOM Level 2 Traversal; the
// step algorithms are the ones the DOM Standard later wrote down for exactly the Level 2 "logical view" semantics),
// tag-name lists, and Range (DOM Level 2 Range boundary-point rules + content operations). Knows nothing about xerces.
#pragma once
#include "refdom.hpp"
#include <functional>

namespace refdom {

enum { F_ACCEPT = 1, F_REJECT = 2, F_SKIP = 3 };
enum { RANGE_BAD_BOUNDARYPOINTS_ERR = 111, RANGE_INVALID_NODE_TYPE_ERR = 112 };     // DOMRangeException codes as xerces-c numbers them (carried in DOMException::code)

// A filter that is a pure function of the (immutable) model identity of a node, so that acceptance never changes under a view.
struct FilterSpec {
    unsigned show = 0xFFFFFFFFu; int kind = 0;      // kind 0: no NodeFilter object
    static int userFilter(int kind, int id) { if (kind == 0) return F_ACCEPT; unsigned h = ((unsigned)id * 2654435761u) ^ ((unsigned)kind * 40503u); h ^= h >> 13; unsigned m = h % 8; if (kind == 1) return m < 5 ? F_ACCEPT : F_SKIP; if (kind == 2) return m < 4 ? F_ACCEPT : m < 6 ? F_SKIP : F_REJECT; return m < 6 ? F_ACCEPT : F_REJECT; }
    // whatToShow is applied first: a node it excludes is skipped (its children are still considered) and the filter is not consulted
    // (rejectThroughMask: the deviating reading "the filter is asked anyway and its REJECT still prunes the subtree", used only to classify a mismatch)
    bool rejectThroughMask = false;
    int operator()(const Node* n) const { if (!(show & (1u << (n->type - 1)))) return (rejectThroughMask && userFilter(kind, n->id) == F_REJECT) ? F_REJECT : F_SKIP; return userFilter(kind, n->id); }
};

inline Node* lastInclusiveDescendant(Node* n) { while (!n->kids.empty()) n = n->kids.back(); return n; }
inline bool inclusiveAncestor(const Node* a, const Node* n) { return Model::isAncestorOrSelf(a, n); }

// ------------------------------------------------------------------------------------------------ NodeIterator
struct RefIterator : Observer {
    Node* root = nullptr; FilterSpec f; Node* ref = nullptr; bool before = true; bool detached = false;
    Node* following(Node* n) const { if (!n->kids.empty()) return n->kids[0]; for (; n && n != root; n = n->parent) { if (Node* s = n->next()) return s; } return nullptr; }
    Node* followingSkippingSubtree(Node* n) const { for (; n && n != root; n = n->parent) { if (Node* s = n->next()) return s; } return nullptr; }
    Node* preceding(Node* n) const { if (n == root) return nullptr; if (Node* p = n->prev()) return lastInclusiveDescendant(p); return n->parent; }
    Node* step(bool forward) {
        Node* node = ref; bool b = before;
        for (;;) {
            if (forward) { if (!b) { node = following(node); if (!node) return nullptr; } else b = false; }
            else { if (b) { node = preceding(node); if (!node) return nullptr; } else b = true; }
            if (f(node) == F_ACCEPT) break;       // for an iterator REJECT means the same as SKIP
        }
        ref = node; before = b; return node;
    }
    void preRemove(Node* rem) override {
        if (detached || !inclusiveAncestor(rem, ref) || rem == root || !inclusiveAncestor(root, rem)) return;
        if (before) { Node* nx = followingSkippingSubtree(rem); if (nx) { ref = nx; return; } before = false; }
        ref = rem->prev() ? lastInclusiveDescendant(rem->prev()) : rem->parent;
    }
};

// ------------------------------------------------------------------------------------------------ TreeWalker
struct RefWalker {
    Node* root = nullptr; FilterSpec f; Node* cur = nullptr;
    bool curInsideRoot() const { return inclusiveAncestor(root, cur); }
    Node* parentNode() { Node* n = cur; while (n && n != root) { n = n->parent; if (n && f(n) == F_ACCEPT) { cur = n; return n; } } return nullptr; }
    Node* children(bool first) {
        Node* node = cur->kids.empty() ? nullptr : (first ? cur->kids.front() : cur->kids.back());
        while (node) {
            int r = f(node); if (r == F_ACCEPT) { cur = node; return node; }
            if (r == F_SKIP && !node->kids.empty()) { node = first ? node->kids.front() : node->kids.back(); continue; }
            while (node) { Node* sib = first ? node->next() : node->prev(); if (sib) { node = sib; break; } Node* p = node->parent; if (!p || p == root || p == cur) return nullptr; node = p; }
        }
        return nullptr;
    }
    Node* siblings(bool next) {
        Node* node = cur; if (node == root) return nullptr;
        for (;;) {
            Node* sib = next ? node->next() : node->prev();
            while (sib) { node = sib; int r = f(node); if (r == F_ACCEPT) { cur = node; return node; } sib = node->kids.empty() ? nullptr : (next ? node->kids.front() : node->kids.back()); if (r == F_REJECT || !sib) sib = next ? node->next() : node->prev(); }
            node = node->parent; if (!node || node == root) return nullptr; if (f(node) == F_ACCEPT) return nullptr;
        }
    }
    Node* previousNode() {
        Node* node = cur;
        while (node != root) {
            Node* sib = node->prev();
            while (sib) { node = sib; int r = f(node); while (r != F_REJECT && !node->kids.empty()) { node = node->kids.back(); r = f(node); } if (r == F_ACCEPT) { cur = node; return node; } sib = node->prev(); }
            if (node == root || !node->parent) return nullptr;
            node = node->parent; if (f(node) == F_ACCEPT) { cur = node; return node; }
        }
        return nullptr;
    }
    Node* nextNode() {
        Node* node = cur; int r = F_ACCEPT;
        for (;;) {
            while (r != F_REJECT && !node->kids.empty()) { node = node->kids.front(); r = f(node); if (r == F_ACCEPT) { cur = node; return node; } }
            Node* sib = nullptr; for (Node* t = node; t; t = t->parent) { if (t == root) return nullptr; sib = t->next(); if (sib) break; }
            if (!sib) return nullptr;
            node = sib; r = f(node); if (r == F_ACCEPT) { cur = node; return node; }
        }
    }
};

// ------------------------------------------------------------------------------------------------ getElementsByTagName
struct RefTagList {
    Node* root = nullptr; std::u16string name;       // u"*" matches every element
    void collect(Node* n, std::vector<Node*>& out) const { for (auto k : n->kids) { if (k->type == ELEMENT && (name == u"*" || k->name == name)) out.push_back(k); collect(k, out); } }
    std::vector<Node*> items() const { std::vector<Node*> v; collect(root, v); return v; }
};

// ------------------------------------------------------------------------------------------------ Range
struct BP { Node* c = nullptr; size_t o = 0; bool operator==(const BP& b) const { return c == b.c && o == b.o; } };

// position of boundary point a relative to b (both in the same tree): -1 before, 0 equal, 1 after
inline int compareBP(const BP& a, const BP& b) {
    if (a.c == b.c) return a.o < b.o ? -1 : a.o > b.o ? 1 : 0;
    // is b.c inside a.c?  then compare a.o with the index of the child of a.c that contains b.c
    for (Node* n = b.c; n && n->parent; n = n->parent) if (n->parent == a.c) return a.o <= (size_t)n->indexInParent() ? -1 : 1;
    for (Node* n = a.c; n && n->parent; n = n->parent) if (n->parent == b.c) return (size_t)n->indexInParent() < b.o ? -1 : 1;
    // neither contains the other: compare the children of the common ancestor
    std::vector<Node*> pa, pb; for (Node* n = a.c; n; n = n->parent) pa.push_back(n); for (Node* n = b.c; n; n = n->parent) pb.push_back(n);
    size_t i = pa.size(), j = pb.size(); while (i > 0 && j > 0 && pa[i - 1] == pb[j - 1]) { i--; j--; }
    return pa[i - 1]->indexInParent() < pb[j - 1]->indexInParent() ? -1 : 1;
}

struct RefRange : Observer {
    Model* m = nullptr; Node* doc = nullptr; BP s, e; bool detached = false;      // doc: the document that created the range
    bool collapsed() const { return s == e; }
    Node* root() const { return s.c->root(); }
    Node* commonAncestor() const { Node* n = s.c; while (!inclusiveAncestor(n, e.c)) n = n->parent; return n; }
    // validity invariant of the property: containers in one tree, offsets within bounds, start not after end
    std::string invalid() const { if (!s.c || !e.c) return "null container"; if (s.c->root() != e.c->root()) return "start and end containers are in different trees"; if (s.o > s.c->length()) return "start offset beyond the container's length"; if (e.o > e.c->length()) return "end offset beyond the container's length"; if (compareBP(s, e) > 0) return "start after end"; return ""; }

    // ---- boundary-point fix-up under mutation (DOM Level 2 Range 2.12)
    void fix(BP& b, Node* rem) { Node* p = rem->parent; size_t idx = (size_t)rem->indexInParent(); if (inclusiveAncestor(rem, b.c)) { b.c = p; b.o = idx; } else if (b.c == p && b.o > idx) b.o--; }
    void preRemove(Node* rem) override { if (detached) return; fix(s, rem); fix(e, rem); }
    void inserted(Node* p, size_t idx) override { if (detached) return; if (s.c == p && s.o > idx) s.o++; if (e.c == p && e.o > idx) e.o++; }
    static void fixData(BP& b, Node* n, size_t off, size_t count, size_t newLen) { if (b.c != n) return; if (b.o > off && b.o <= off + count) b.o = off; else if (b.o > off + count) b.o = b.o + newLen - count; }
    void dataReplaced(Node* n, size_t off, size_t count, size_t newLen) override { if (detached) return; fixData(s, n, off, count, newLen); fixData(e, n, off, count, newLen); }
    // A boundary point behind the cut follows its characters into the tail node; a boundary point in the parent that sat right behind the
    // node that was split stays behind ALL of its former text, i.e. moves behind the tail (otherwise a range that starts in the moved text
    // and ends right behind the old node would end before it starts).
    // The tail is inserted at index(n)+1; by the Level 2 insertion rule a boundary-point at exactly that index stays in front of the tail (the
    // pinned RangeTest relies on it). Only when the start follows its text into the tail must an end at (parent, index(n)+1) move behind the
    // tail - otherwise the range would end before it starts, which the property rules out.
    void textSplit(Node* n, Node* t, size_t off) override { if (detached) return; bool startMoved = false; if (s.c == n && s.o > off) { s.c = t; s.o -= off; startMoved = true; } if (e.c == n && e.o > off) { e.c = t; e.o -= off; }
        if (Node* p = n->parent) { size_t idx = (size_t)n->indexInParent(); if (startMoved && e.c == p && e.o == idx + 1) e.o++; } }

    // ---- setting boundary points
    static bool badContainerType(const Node* n) { for (; n; n = n->parent) if (n->type == DOCUMENT_TYPE || n->type == ENTITY || n->type == NOTATION) return true; return false; }
    Verdict checkPoint(Node* n, size_t off) const { Verdict v; if (detached) { v.add(INVALID_STATE_ERR); return v; } if (badContainerType(n)) v.add(RANGE_INVALID_NODE_TYPE_ERR); if (off > n->length()) v.add(INDEX_SIZE_ERR); return v; }
    void setStartRaw(Node* n, size_t off) { BP b{ n, off }; if (n->root() != root() || compareBP(b, e) > 0) e = b; s = b; }
    void setEndRaw(Node* n, size_t off) { BP b{ n, off }; if (n->root() != root() || compareBP(b, s) < 0) s = b; e = b; }
    Verdict setStart(Node* n, size_t off) { Verdict v = checkPoint(n, off); if (v.ok()) setStartRaw(n, off); return v; }
    Verdict setEnd(Node* n, size_t off) { Verdict v = checkPoint(n, off); if (v.ok()) setEndRaw(n, off); return v; }
    // set{Start,End}{Before,After}: the root container of refNode must be an Attr, Document or DocumentFragment and refNode none of
    // Document, DocumentFragment, Attr, Entity, Notation; selectNode: no Entity / Notation / DocumentType ancestor and the same node types
    // (callers never pass a node without parent: Level 2 does not say what a parentless node selects)
    static bool badRelNodeType(const Node* n) { return n->type == DOCUMENT || n->type == FRAGMENT || n->type == ATTRIBUTE || n->type == ENTITY || n->type == NOTATION; }
    Verdict checkRel(Node* n, bool needLegalRoot = true) const { Verdict v; if (detached) { v.add(INVALID_STATE_ERR); return v; } int rt = n->root()->type; if (badRelNodeType(n) || badContainerType(n) || (needLegalRoot && rt != DOCUMENT && rt != FRAGMENT && rt != ATTRIBUTE)) v.add(RANGE_INVALID_NODE_TYPE_ERR); return v; }
    Verdict setStartBefore(Node* n) { Verdict v = checkRel(n); if (v.ok()) setStartRaw(n->parent, (size_t)n->indexInParent()); return v; }
    Verdict setStartAfter(Node* n) { Verdict v = checkRel(n); if (v.ok()) setStartRaw(n->parent, (size_t)n->indexInParent() + 1); return v; }
    Verdict setEndBefore(Node* n) { Verdict v = checkRel(n); if (v.ok()) setEndRaw(n->parent, (size_t)n->indexInParent()); return v; }
    Verdict setEndAfter(Node* n) { Verdict v = checkRel(n); if (v.ok()) setEndRaw(n->parent, (size_t)n->indexInParent() + 1); return v; }
    Verdict selectNode(Node* n) { Verdict v = checkRel(n, false); if (v.ok()) { s = BP{ n->parent, (size_t)n->indexInParent() }; e = BP{ n->parent, (size_t)n->indexInParent() + 1 }; } return v; }
    Verdict selectNodeContents(Node* n) { Verdict v; if (detached) { v.add(INVALID_STATE_ERR); return v; } if (badContainerType(n)) { v.add(RANGE_INVALID_NODE_TYPE_ERR); return v; } s = BP{ n, 0 }; e = BP{ n, n->length() }; return v; }
    Verdict collapse(bool toStart) { Verdict v; if (detached) { v.add(INVALID_STATE_ERR); return v; } if (toStart) e = s; else s = e; return v; }

    // how: 0 START_TO_START, 1 START_TO_END, 2 END_TO_END, 3 END_TO_START ("X_TO_Y": X of the source range against Y of this range)
    Verdict compareBoundaryPoints(int how, const RefRange& src, int& out) const {
        Verdict v; if (detached || src.detached) v.add(INVALID_STATE_ERR); if (doc != src.doc || (!detached && !src.detached && root() != src.root())) v.add(WRONG_DOCUMENT_ERR); if (!v.ok()) return v;     // (which of two violated preconditions is reported is open)
        BP mine = (how == 1 || how == 2) ? e : s, theirs = (how == 0 || how == 1) ? src.s : src.e; out = compareBP(mine, theirs); return v;
    }
    std::u16string toString() const {
        std::u16string out; if (collapsed()) return out;
        if (s.c == e.c && (s.c->type == TEXT || s.c->type == CDATA)) return s.c->value.substr(s.o, e.o - s.o);
        // walk the nodes from the start boundary to the end boundary in document order
        std::function<void(Node*)> walk = [&](Node* n) {
            if (n->type == TEXT || n->type == CDATA) {
                size_t from = 0, to = n->value.size();
                if (n == s.c) from = s.o; else if (n->parent && compareBP(BP{ n->parent, (size_t)n->indexInParent() + 1 }, s) <= 0) return;      // entirely before the range
                if (n == e.c) to = e.o; else if (n->parent && compareBP(BP{ n->parent, (size_t)n->indexInParent() }, e) >= 0) return;             // entirely after it
                if (to > from) out += n->value.substr(from, to - from);
                return;
            }
            for (auto k : n->kids) walk(k);
        };
        walk(commonAncestor()); return out;
    }

    // ---- content operations. how: 0 extract, 1 clone, 2 delete. Returns the fragment (extract / clone) or null.
    bool contained(Node* n) const { return n->parent && compareBP(BP{ n->parent, (size_t)n->indexInParent() }, s) >= 0 && compareBP(BP{ n->parent, (size_t)n->indexInParent() + 1 }, e) <= 0; }
    bool partiallyContained(Node* n) const { return inclusiveAncestor(n, s.c) != inclusiveAncestor(n, e.c); }
    static bool dataNode(const Node* n) { return n->isCharData() || n->type == PI; }
    Node* cloneShallow(Node* n) { return m->cloneRec(n, n->doc, false); }
    void append(Node* parent, Node* n) { if (!parent) return; m->removeNode(n); m->insertAt(parent, n, parent->kids.size()); }
    void appendFragmentKids(Node* parent, Node* frag) { if (!frag) return; while (!frag->kids.empty()) append(parent, frag->kids[0]); }
    // `frag` null for delete. Works on the boundary points given (sub-ranges of the recursion are plain values).
    void process(int how, BP os, BP oe, Node* frag, BP* newPoint) {
        if (os == oe) { if (newPoint) *newPoint = os; return; }
        if (os.c == oe.c && dataNode(os.c)) {
            if (frag) { Node* c = cloneShallow(os.c); c->value = os.c->value.substr(os.o, oe.o - os.o); append(frag, c); }
            if (how != 1) m->replaceData(os.c, os.o, oe.o - os.o, u"");
            if (newPoint) *newPoint = os; return;
        }
        Node* common = os.c; while (!inclusiveAncestor(common, oe.c)) common = common->parent;
        auto containsPoint = [&](Node* n, const BP& b) { return inclusiveAncestor(n, b.c); };
        Node* firstPartial = nullptr; Node* lastPartial = nullptr; std::vector<Node*> containedKids;
        for (auto k : common->kids) {
            bool hasS = containsPoint(k, os), hasE = containsPoint(k, oe);
            if (hasS != hasE) { if (hasS && !inclusiveAncestor(os.c, oe.c)) { if (!firstPartial) firstPartial = k; } if (hasE && !inclusiveAncestor(oe.c, os.c)) lastPartial = k; }
            else if (!hasS && compareBP(BP{ common, (size_t)k->indexInParent() }, os) >= 0 && compareBP(BP{ common, (size_t)k->indexInParent() + 1 }, oe) <= 0) containedKids.push_back(k);
        }
        BP np;
        if (inclusiveAncestor(os.c, oe.c)) np = os;
        else { Node* r = os.c; while (r->parent && !inclusiveAncestor(r->parent, oe.c)) r = r->parent; np = BP{ r->parent, (size_t)r->indexInParent() + 1 }; }
        if (firstPartial && dataNode(firstPartial)) {
            if (frag) { Node* c = cloneShallow(os.c); c->value = os.c->value.substr(os.o); append(frag, c); }
            if (how != 1) m->replaceData(os.c, os.o, os.c->value.size() - os.o, u"");
        } else if (firstPartial) {
            Node* c = frag ? cloneShallow(firstPartial) : nullptr; if (c) append(frag, c);
            process(how, os, BP{ firstPartial, firstPartial->length() }, c, nullptr);
        }
        for (auto k : containedKids) { if (how == 1) { if (frag) { Node* c = m->cloneRec(k, k->doc, true); append(frag, c); } } else if (frag) append(frag, k); else m->removeNode(k); }
        if (lastPartial && dataNode(lastPartial)) {
            if (frag) { Node* c = cloneShallow(oe.c); c->value = oe.c->value.substr(0, oe.o); append(frag, c); }
            if (how != 1) m->replaceData(oe.c, 0, oe.o, u"");
        } else if (lastPartial) {
            Node* c = frag ? cloneShallow(lastPartial) : nullptr; if (c) append(frag, c);
            process(how, BP{ lastPartial, 0 }, oe, c, nullptr);
        }
        if (newPoint) *newPoint = np;
    }
    // precondition shared by the mutating content operations
    // "any of the nodes that contain any of the content of the Range are read-only" -> must be refused; a read-only node (an
    // entity reference) that lies wholly inside the content may be refused ("any portion of the content is read-only") or
    // removed as a whole like removeChild would: tolerated both ways. A collapsed range has no content.
    bool hasReadOnly(Node* n) const { if (n->readOnly && n->parent && compareBP(BP{ n->parent, (size_t)n->indexInParent() }, s) >= 0 && compareBP(BP{ n->parent, (size_t)n->indexInParent() + 1 }, e) <= 0) return true; for (auto k : n->kids) if (hasReadOnly(k)) return true; return false; }
    Verdict checkMutable(bool evenIfCollapsed = false) const {
        Verdict v; if (detached) { v.add(INVALID_STATE_ERR); return v; }
        bool roContainer = false; for (Node* n = s.c; n; n = n->parent) if (n->readOnly) roContainer = true; for (Node* n = e.c; n; n = n->parent) if (n->readOnly) roContainer = true;
        if (evenIfCollapsed) { if (roContainer) v.add(NO_MODIFICATION_ALLOWED_ERR); return v; }      // something is to be inserted at a boundary point: a read-only container must refuse
        if (collapsed()) return v;
        // (the only read-only nodes of these worlds are childless entity references: one that holds a boundary point holds no content)
        if (roContainer || hasReadOnly(commonAncestor())) v.refusal.insert(NO_MODIFICATION_ALLOWED_ERR);
        return v;
    }
    Node* contents(int how) {
        Node* frag = how == 2 ? nullptr : m->make(FRAGMENT, s.c->doc, u"#document-fragment");
        BP np; BP os = s, oe = e; process(how, os, oe, frag, &np);
        if (how != 1) { s = np; e = np; }
        return frag;
    }
};

} // namespace refdom
