// icuwrap: link-time seam (-Wl,--wrap) over the ICU converter calls xerces-c makes. ICU is an uninstrumented system library, so
// ThreadSanitizer cannot see what a conversion does to its UConverter; a UConverter is not thread safe, and xerces-c shares exactly one
// between all threads (the local-code-page transcoder behind XMLString::transcode), guarded by a mutex. Each wrapped call performs one
// instrumented write to a shadow byte that stands for the converter it was given: two conversions on the same converter without a
// happens-before edge between them (a path that forgot the mutex) become a data race ThreadSanitizer reports, under the serialising
// scheduler too. A closed converter retires its shadow byte (the address may be handed out again to another thread).
#include <unicode/ucnv.h>
#include <atomic>
#include <cstdint>

namespace {
constexpr size_t kSlots = 1u << 16, kShadow = 1u << 22;
std::atomic<void*> g_key[kSlots];            // open addressing: converter address -> index of its current shadow byte
std::atomic<uint32_t> g_idx[kSlots];
std::atomic<uint32_t> g_next{ 1 };
char g_shadow[kShadow];
std::atomic<uint64_t> g_touched{ 0 };

size_t slotOf(void* c, bool create) {
    size_t h = ((uintptr_t)c >> 4) * 0x9E3779B97F4A7C15ull >> 48;
    for (size_t i = 0; i < kSlots; i++) {
        size_t s = (h + i) & (kSlots - 1); void* k = g_key[s].load(std::memory_order_acquire);
        if (k == c) return s;
        if (k == nullptr) { if (!create) return kSlots; void* exp = nullptr; if (g_key[s].compare_exchange_strong(exp, c, std::memory_order_acq_rel) || exp == c) return s; }
    }
    return kSlots;
}
inline void touch(void* c) {
    if (!c) return; size_t s = slotOf(c, true); if (s == kSlots) return;
    uint32_t i = g_idx[s].load(std::memory_order_relaxed);
    if (i == 0) { uint32_t fresh = g_next.fetch_add(1, std::memory_order_relaxed); if (fresh >= kShadow) return; uint32_t exp = 0; if (g_idx[s].compare_exchange_strong(exp, fresh, std::memory_order_relaxed)) i = fresh; else i = exp; }
    g_shadow[i]++;                            // the instrumented access that stands for "this call changes the converter's state"
    g_touched.fetch_add(1, std::memory_order_relaxed);
}
inline void retire(void* c) { if (!c) return; size_t s = slotOf(c, false); if (s != kSlots) g_idx[s].store(0, std::memory_order_relaxed); }
}

extern "C" uint64_t sim_icu_converter_calls() { return g_touched.load(std::memory_order_relaxed); }

#define CAT_(a, b) a##b
#define CAT(a, b) CAT_(a, b)
#define WRAPN(f) CAT(__wrap_, f)
#define REALN(f) CAT(__real_, f)

extern "C" {
int32_t REALN(ucnv_fromUChars)(UConverter*, char*, int32_t, const UChar*, int32_t, UErrorCode*);
int32_t WRAPN(ucnv_fromUChars)(UConverter* c, char* d, int32_t dc, const UChar* s, int32_t sl, UErrorCode* e) { touch(c); return REALN(ucnv_fromUChars)(c, d, dc, s, sl, e); }
int32_t REALN(ucnv_toUChars)(UConverter*, UChar*, int32_t, const char*, int32_t, UErrorCode*);
int32_t WRAPN(ucnv_toUChars)(UConverter* c, UChar* d, int32_t dc, const char* s, int32_t sl, UErrorCode* e) { touch(c); return REALN(ucnv_toUChars)(c, d, dc, s, sl, e); }
void REALN(ucnv_fromUnicode)(UConverter*, char**, const char*, const UChar**, const UChar*, int32_t*, UBool, UErrorCode*);
void WRAPN(ucnv_fromUnicode)(UConverter* c, char** t, const char* tl, const UChar** s, const UChar* sl, int32_t* o, UBool f, UErrorCode* e) { touch(c); REALN(ucnv_fromUnicode)(c, t, tl, s, sl, o, f, e); }
void REALN(ucnv_toUnicode)(UConverter*, UChar**, const UChar*, const char**, const char*, int32_t*, UBool, UErrorCode*);
void WRAPN(ucnv_toUnicode)(UConverter* c, UChar** t, const UChar* tl, const char** s, const char* sl, int32_t* o, UBool f, UErrorCode* e) { touch(c); REALN(ucnv_toUnicode)(c, t, tl, s, sl, o, f, e); }
void REALN(ucnv_setFromUCallBack)(UConverter*, UConverterFromUCallback, const void*, UConverterFromUCallback*, const void**, UErrorCode*);
void WRAPN(ucnv_setFromUCallBack)(UConverter* c, UConverterFromUCallback a, const void* ctx, UConverterFromUCallback* oa, const void** octx, UErrorCode* e) { touch(c); REALN(ucnv_setFromUCallBack)(c, a, ctx, oa, octx, e); }
void REALN(ucnv_close)(UConverter*);
void WRAPN(ucnv_close)(UConverter* c) { touch(c); retire(c); REALN(ucnv_close)(c); }
}
