// Minimal JSON value (objects keep insertion order so dumps are deterministic).
#pragma once
#include <string>
#include <vector>
#include <utility>
#include <cstdint>
#include <cstdio>
#include <cstdlib>
#include <cstring>
#include <stdexcept>

namespace sim {

struct Json {
    enum T { NUL, BOOL, NUM, STR, ARR, OBJ } t = NUL;
    bool b = false;
    int64_t n = 0;
    double d = 0; bool isD = false;
    std::string s;
    std::vector<Json> a;
    std::vector<std::pair<std::string, Json>> o;

    Json() {}
    Json(bool v) : t(BOOL), b(v) {}
    Json(int v) : t(NUM), n(v) {}
    Json(unsigned v) : t(NUM), n(v) {}
    Json(long v) : t(NUM), n(v) {}
    Json(long long v) : t(NUM), n(v) {}
    Json(unsigned long v) : t(NUM), n((int64_t)v) {}
    Json(unsigned long long v) : t(NUM), n((int64_t)v) {}
    Json(double v) : t(NUM), d(v), isD(true) {}
    Json(const char* v) : t(STR), s(v) {}
    Json(const std::string& v) : t(STR), s(v) {}
    static Json arr() { Json j; j.t = ARR; return j; }
    static Json obj() { Json j; j.t = OBJ; return j; }

    bool isNull() const { return t == NUL; }
    Json& push(const Json& v) { if (t != ARR) { t = ARR; a.clear(); } a.push_back(v); return *this; }
    Json& set(const std::string& k, const Json& v) {
        if (t != OBJ) { t = OBJ; o.clear(); }
        for (auto& kv : o) if (kv.first == k) { kv.second = v; return *this; }
        o.emplace_back(k, v); return *this;
    }
    bool has(const std::string& k) const { if (t != OBJ) return false; for (auto& kv : o) if (kv.first == k) return true; return false; }
    const Json& at(const std::string& k) const {
        static Json nul;
        if (t != OBJ) return nul;
        for (auto& kv : o) if (kv.first == k) return kv.second;
        return nul;
    }
    Json& ref(const std::string& k) {
        if (t != OBJ) { t = OBJ; o.clear(); }
        for (auto& kv : o) if (kv.first == k) return kv.second;
        o.emplace_back(k, Json()); return o.back().second;
    }
    void erase(const std::string& k) { for (size_t i = 0; i < o.size(); i++) if (o[i].first == k) { o.erase(o.begin() + i); return; } }
    int64_t i64(int64_t def = 0) const { if (t == NUM) return isD ? (int64_t)d : n; if (t == BOOL) return b; return def; }
    int64_t geti(const std::string& k, int64_t def = 0) const { const Json& j = at(k); return j.isNull() ? def : j.i64(def); }
    bool getb(const std::string& k, bool def = false) const { const Json& j = at(k); if (j.t == BOOL) return j.b; if (j.t == NUM) return j.i64() != 0; return def; }
    std::string gets(const std::string& k, const std::string& def = "") const { const Json& j = at(k); return j.t == STR ? j.s : def; }
    size_t size() const { return t == ARR ? a.size() : t == OBJ ? o.size() : 0; }

    static void esc(std::string& out, const std::string& s) {
        out += '"';
        for (unsigned char c : s) {
            switch (c) {
            case '"': out += "\\\""; break;
            case '\\': out += "\\\\"; break;
            case '\n': out += "\\n"; break;
            case '\r': out += "\\r"; break;
            case '\t': out += "\\t"; break;
            default:
                if (c < 0x20 || c >= 0x7f) { char b[8]; snprintf(b, sizeof b, "\\u%04x", c); out += b; }
                else out += (char)c;
            }
        }
        out += '"';
    }
    void dumpTo(std::string& out, int indent = -1, int level = 0) const {
        auto nl = [&](int lv) { if (indent >= 0) { out += '\n'; out.append((size_t)lv * indent, ' '); } };
        switch (t) {
        case NUL: out += "null"; break;
        case BOOL: out += b ? "true" : "false"; break;
        case NUM: { char buf[40]; if (isD) snprintf(buf, sizeof buf, "%.6g", d); else snprintf(buf, sizeof buf, "%lld", (long long)n); out += buf; break; }
        case STR: esc(out, s); break;
        case ARR:
            out += '[';
            for (size_t i = 0; i < a.size(); i++) { if (i) out += ','; bool simple = a[i].t != ARR && a[i].t != OBJ; if (!simple) nl(level + 1); a[i].dumpTo(out, indent, level + 1); }
            if (!a.empty() && (a.back().t == ARR || a.back().t == OBJ)) nl(level);
            out += ']'; break;
        case OBJ:
            out += '{';
            for (size_t i = 0; i < o.size(); i++) { if (i) out += ','; nl(level + 1); esc(out, o[i].first); out += indent >= 0 ? ": " : ":"; o[i].second.dumpTo(out, indent, level + 1); }
            if (!o.empty()) nl(level);
            out += '}'; break;
        }
    }
    std::string dump(int indent = -1) const { std::string s; dumpTo(s, indent); return s; }

    // ---- parser (bytes in strings are stored as \u00XX latin-1 style by esc(); decode the same way)
    struct P {
        const char* p; const char* e;
        void ws() { while (p < e && (*p == ' ' || *p == '\n' || *p == '\r' || *p == '\t')) p++; }
        [[noreturn]] void fail(const char* m) { throw std::runtime_error(std::string("json: ") + m); }
        Json val() {
            ws(); if (p >= e) fail("eof");
            char c = *p;
            if (c == '{') { p++; Json j = Json::obj(); ws(); if (p < e && *p == '}') { p++; return j; }
                for (;;) { ws(); Json k = val(); if (k.t != STR) fail("key"); ws(); if (p >= e || *p != ':') fail(":"); p++; Json v = val(); j.o.emplace_back(k.s, v); ws(); if (p < e && *p == ',') { p++; continue; } if (p < e && *p == '}') { p++; return j; } fail("obj"); } }
            if (c == '[') { p++; Json j = Json::arr(); ws(); if (p < e && *p == ']') { p++; return j; }
                for (;;) { j.a.push_back(val()); ws(); if (p < e && *p == ',') { p++; continue; } if (p < e && *p == ']') { p++; return j; } fail("arr"); } }
            if (c == '"') { p++; Json j; j.t = STR;
                while (p < e && *p != '"') {
                    if (*p == '\\') { p++; if (p >= e) fail("esc"); char x = *p++;
                        switch (x) { case 'n': j.s += '\n'; break; case 'r': j.s += '\r'; break; case 't': j.s += '\t'; break; case 'b': j.s += '\b'; break; case 'f': j.s += '\f'; break;
                        case 'u': { if (e - p < 4) fail("u"); char h[5] = { p[0], p[1], p[2], p[3], 0 }; p += 4; unsigned v = (unsigned)strtoul(h, 0, 16);
                            if (v < 0x100) j.s += (char)v; else if (v < 0x800) { j.s += (char)(0xC0 | (v >> 6)); j.s += (char)(0x80 | (v & 0x3f)); } else { j.s += (char)(0xE0 | (v >> 12)); j.s += (char)(0x80 | ((v >> 6) & 0x3f)); j.s += (char)(0x80 | (v & 0x3f)); } break; }
                        default: j.s += x; } }
                    else j.s += *p++;
                }
                if (p >= e) fail("str"); p++; return j; }
            if (!strncmp(p, "true", 4) && e - p >= 4) { p += 4; return Json(true); }
            if (!strncmp(p, "false", 5) && e - p >= 5) { p += 5; return Json(false); }
            if (!strncmp(p, "null", 4) && e - p >= 4) { p += 4; return Json(); }
            { const char* q = p; bool dbl = false; if (*q == '-' || *q == '+') q++; while (q < e && ((*q >= '0' && *q <= '9') || *q == '.' || *q == 'e' || *q == 'E' || *q == '-' || *q == '+')) { if (*q == '.' || *q == 'e' || *q == 'E') dbl = true; q++; }
                if (q == p) fail("value"); std::string t(p, q); p = q; if (dbl) return Json(strtod(t.c_str(), 0)); return Json((long long)strtoll(t.c_str(), 0, 10)); }
        }
    };
    static Json parse(const std::string& s) { P p{ s.data(), s.data() + s.size() }; Json j = p.val(); return j; }
};

inline std::string hexEnc(const std::string& b) { static const char* H = "0123456789abcdef"; std::string o; o.reserve(b.size() * 2); for (unsigned char c : b) { o += H[c >> 4]; o += H[c & 15]; } return o; }
inline std::string hexDec(const std::string& h) { std::string o; auto v = [](char c) { return c <= '9' ? c - '0' : (c | 32) - 'a' + 10; }; for (size_t i = 0; i + 1 < h.size(); i += 2) o += (char)((v(h[i]) << 4) | v(h[i + 1])); return o; }

// bytes that are readable as-is are kept as text ("t:"), others hex ("h:")
inline std::string bytesEnc(const std::string& b) {
    size_t odd = 0; for (unsigned char c : b) if ((c < 0x20 && c != '\n') || c >= 0x7f) odd++;
    if (odd == 0) return "t:" + b;
    if (odd * 4 <= b.size()) return "r:" + b;      // raw bytes; the JSON writer escapes every non-printable byte as \u00XX and the reader maps it back
    return "h:" + hexEnc(b);
}
inline std::string bytesDec(const std::string& s) {
    if (s.size() >= 2 && s[0] == 'h' && s[1] == ':') return hexDec(s.substr(2));
    if (s.size() >= 2 && (s[0] == 't' || s[0] == 'r') && s[1] == ':') return s.substr(2);
    return s;
}

inline bool readFile(const std::string& path, std::string& out) { FILE* f = fopen(path.c_str(), "rb"); if (!f) return false; char buf[65536]; size_t n; out.clear(); while ((n = fread(buf, 1, sizeof buf, f)) > 0) out.append(buf, n); fclose(f); return true; }
inline bool writeFile(const std::string& path, const std::string& data) { FILE* f = fopen(path.c_str(), "wb"); if (!f) return false; fwrite(data.data(), 1, data.size(), f); fclose(f); return true; }

} // namespace sim
