// Baton scheduler: real threads, exactly one runs at a time; the seeded scheduler picks who runs next at every
// scheduling point. This header is included by instrumented code; the implementation (baton.cpp) and ALL of its
// state are compiled WITHOUT -fsanitize=thread and use raw futex syscalls, so that the hand-off itself creates no
// happens-before edges that ThreadSanitizer could see (DESIGN 3.5).
#pragma once
#include <cstdint>

namespace baton {

enum Kind { K_LOCK = 0, K_UNLOCK = 1, K_ALLOC = 2, K_OP = 3, K_START = 4, K_END = 5, K_KINDS = 6 };

struct Cfg {
    uint64_t seed = 1;
    int policy = 0;              // 0 uniform random, 1 PCT-style priorities with change points, 2 long bursts with rare switches
    int nthreads = 2;            // worker threads (tids 1..n); tid 0 is the coordinator
    uint64_t maxSteps = 50000000; // scheduling points before the run is declared over budget
    int pctDepth = 3;
    unsigned burstKeepPermille = 950;
    unsigned allocPointPermille = 50;   // fraction of allocations that are scheduling points at all
};

struct Stats { uint64_t points[K_KINDS]; uint64_t switches[K_KINDS]; uint64_t steps; uint64_t decisionHash; uint64_t contended; };

void init(const Cfg& c);
void threadBegin(int tid);      // called first thing by worker thread `tid`; returns when it is scheduled
void threadEnd(int tid);        // called last thing by worker thread `tid`
// coordinator: run the workers to completion. returns 0 = all finished, 1 = deadlock, 2 = step budget exceeded
int runAll();
void yieldPoint(int kind);      // scheduling point; no-op outside the threaded phase
void lock(void* handle);        // XMLMutex semantics (recursive); blocks (= is not runnable) while another thread owns it
void unlock(void* handle);
int self();                     // 0 coordinator, 1..n worker
bool active();                  // threaded phase in progress
const Stats& stats();
const char* deadlockInfo();     // human readable lock graph after runAll() returned 1

// ThreadSanitizer reports captured by __tsan_on_report (defined in baton.cpp, uninstrumented on purpose)
struct RawReport { char desc[48]; int nmop; void* pcs[2][10]; int write[2]; };
void reportsReset(); int reportsCount(); int reportsTotal(); const RawReport& report(int i);

} // namespace baton
