// Compiled WITHOUT -fsanitize=thread (see baton.hpp). No C++ runtime facilities that TSan intercepts are used for
// synchronisation here: only raw futex syscalls and __atomic builtins.
#include "baton.hpp"
#include <linux/futex.h>
#include <sys/syscall.h>
#include <unistd.h>
#include <cstdio>
#include <cstring>

namespace baton {

static const int MAXT = 40;
enum St { ST_NONE = 0, ST_NOTSTARTED, ST_RUNNABLE, ST_BLOCKED, ST_DONE };

static Cfg g_cfg;
static int g_go[MAXT];                 // futex words: 1 = you hold the baton
static int g_state[MAXT];
static void* g_waitFor[MAXT];
static int g_prio[MAXT];
static int g_current = 0;
static bool g_active = false;
static int g_result = 0;
static Stats g_stats;
static uint64_t g_rng[4];
static uint64_t g_changePoints[8]; static int g_nChange = 0;
static char g_deadlock[1024];
static __thread int t_tid = 0;

struct Mtx { void* h; int owner; int depth; };
static Mtx g_mtx[4096]; static int g_nMtx = 0;

static uint64_t rotl(uint64_t x, int k) { return (x << k) | (x >> (64 - k)); }
static uint64_t rnd() { uint64_t r = rotl(g_rng[1] * 5, 7) * 9, t = g_rng[1] << 17; g_rng[2] ^= g_rng[0]; g_rng[3] ^= g_rng[1]; g_rng[1] ^= g_rng[2]; g_rng[0] ^= g_rng[3]; g_rng[2] ^= t; g_rng[3] = rotl(g_rng[3], 45); return r; }
static uint64_t splitmix(uint64_t& x) { uint64_t z = (x += 0x9E3779B97F4A7C15ull); z = (z ^ (z >> 30)) * 0xBF58476D1CE4E5B9ull; z = (z ^ (z >> 27)) * 0x94D049BB133111EBull; return z ^ (z >> 31); }

static void futexWait(int* addr) { while (__atomic_load_n(addr, __ATOMIC_ACQUIRE) == 0) syscall(SYS_futex, addr, FUTEX_WAIT, 0, nullptr, nullptr, 0); }
static void futexWake(int* addr) { __atomic_store_n(addr, 1, __ATOMIC_RELEASE); syscall(SYS_futex, addr, FUTEX_WAKE, 1, nullptr, nullptr, 0); }

static Mtx* findMtx(void* h, bool create) {
    for (int i = 0; i < g_nMtx; i++) if (g_mtx[i].h == h) return &g_mtx[i];
    if (!create || g_nMtx >= 4096) return nullptr;
    g_mtx[g_nMtx] = Mtx{ h, -1, 0 }; return &g_mtx[g_nMtx++];
}

void init(const Cfg& c) {
    g_cfg = c; if (g_cfg.nthreads > MAXT - 1) g_cfg.nthreads = MAXT - 1;
    memset(g_go, 0, sizeof g_go); memset(&g_stats, 0, sizeof g_stats); g_stats.decisionHash = 1469598103934665603ull;
    for (int i = 0; i < MAXT; i++) { g_state[i] = ST_NONE; g_waitFor[i] = nullptr; g_prio[i] = 0; }
    for (int i = 1; i <= g_cfg.nthreads; i++) g_state[i] = ST_NOTSTARTED;
    uint64_t x = c.seed; for (int i = 0; i < 4; i++) g_rng[i] = splitmix(x);
    for (int i = 1; i <= g_cfg.nthreads; i++) g_prio[i] = (int)(rnd() % 1000) + 1000;
    g_nChange = c.pctDepth > 8 ? 8 : c.pctDepth; for (int i = 0; i < g_nChange; i++) g_changePoints[i] = rnd() % 20000;
    g_nMtx = 0; g_current = 0; g_active = false; g_result = 0; g_deadlock[0] = 0; t_tid = 0;
}
int self() { return t_tid; }
bool active() { return g_active; }
const Stats& stats() { return g_stats; }
const char* deadlockInfo() { return g_deadlock; }

// choose the next thread among the runnable ones; -1 if none
static int choose(int kind, int cur) {
    int run[MAXT]; int n = 0;
    for (int i = 1; i <= g_cfg.nthreads; i++) if (g_state[i] == ST_RUNNABLE || g_state[i] == ST_NOTSTARTED) run[n++] = i;
    if (n == 0) return -1;
    bool curRunnable = cur > 0 && (g_state[cur] == ST_RUNNABLE);
    int pick;
    if (g_cfg.policy == 1) {           // PCT: highest priority runs; at change points the running thread drops to the bottom
        for (int i = 0; i < g_nChange; i++) if (g_changePoints[i] == g_stats.steps && curRunnable) g_prio[cur] = (int)(rnd() % 900);
        pick = run[0]; for (int i = 1; i < n; i++) if (g_prio[run[i]] > g_prio[pick]) pick = run[i];
    } else if (g_cfg.policy == 2) {    // long bursts
        if (curRunnable && (rnd() % 1000) < g_cfg.burstKeepPermille) pick = cur; else pick = run[rnd() % (uint64_t)n];
    } else pick = run[rnd() % (uint64_t)n];
    (void)kind;
    return pick;
}

static void noteDecision(int kind, int from, int to) {
    g_stats.points[kind]++; g_stats.steps++;
    if (from != to) g_stats.switches[kind]++;
    uint64_t h = g_stats.decisionHash; unsigned char b[2] = { (unsigned char)kind, (unsigned char)to };
    for (int i = 0; i < 2; i++) { h ^= b[i]; h *= 1099511628211ull; } g_stats.decisionHash = h;
}

static void describeDeadlock() {
    size_t off = 0; off += (size_t)snprintf(g_deadlock + off, sizeof g_deadlock - off, "no runnable thread;");
    for (int i = 1; i <= g_cfg.nthreads && off < sizeof g_deadlock - 80; i++) if (g_state[i] == ST_BLOCKED) { Mtx* m = findMtx(g_waitFor[i], false); off += (size_t)snprintf(g_deadlock + off, sizeof g_deadlock - off, " T%d waits for mutex#%d held by T%d;", i, m ? (int)(m - g_mtx) : -1, m ? m->owner : -1); }
}

// hand the baton from `cur` (who stops running now, for whatever reason) to `next`
static void handOver(int cur, int next) {
    g_current = next;
    if (next == cur) return;
    __atomic_store_n(&g_go[cur], 0, __ATOMIC_RELAXED);
    futexWake(&g_go[next]);
}

// scheduling decision taken by the running thread `cur`; returns after `cur` holds the baton again
static void reschedule(int kind, int cur) {
    if (g_stats.steps >= g_cfg.maxSteps) { g_result = 2; }
    int next = g_result ? 0 : choose(kind, cur);
    if (next < 0) { describeDeadlock(); g_result = 1; next = 0; }     // nobody can run: give the baton back to the coordinator
    noteDecision(kind, cur, next);
    if (next == cur) return;
    handOver(cur, next);
    futexWait(&g_go[cur]);
}

void threadBegin(int tid) { t_tid = tid; futexWait(&g_go[tid]); g_state[tid] = ST_RUNNABLE; }

void threadEnd(int tid) {
    g_state[tid] = ST_DONE;
    int next = g_result ? 0 : choose(K_END, tid);
    if (next < 0) { bool allDone = true; for (int i = 1; i <= g_cfg.nthreads; i++) if (g_state[i] != ST_DONE) allDone = false; if (!allDone) { describeDeadlock(); g_result = 1; } next = 0; }
    noteDecision(K_END, tid, next);
    g_current = next; futexWake(&g_go[next]);
}

int runAll() {
    g_active = true; t_tid = 0;
    int first = choose(K_START, 0);
    if (first > 0) { noteDecision(K_START, 0, first); g_current = first; __atomic_store_n(&g_go[0], 0, __ATOMIC_RELAXED); futexWake(&g_go[first]); futexWait(&g_go[0]); }
    g_active = false;
    return g_result;
}

void yieldPoint(int kind) {
    if (!g_active) return; int cur = t_tid; if (cur == 0 || g_current != cur) return;
    if (kind == K_ALLOC && (rnd() % 1000) >= g_cfg.allocPointPermille) return;
    reschedule(kind, cur);
}

void lock(void* h) {
    if (!g_active || t_tid == 0) return;
    int cur = t_tid;
    reschedule(K_LOCK, cur);                    // others may run (and take the mutex) before we try
    for (;;) {
        Mtx* m = findMtx(h, true);
        if (!m) return;
        if (m->owner == -1 || m->owner == cur) { m->owner = cur; m->depth++; return; }
        g_stats.contended++;
        g_state[cur] = ST_BLOCKED; g_waitFor[cur] = h;
        reschedule(K_LOCK, cur);                // not runnable until the owner unlocks
    }
}

void unlock(void* h) {
    if (!g_active || t_tid == 0) return;
    int cur = t_tid; Mtx* m = findMtx(h, false);
    if (m && m->owner == cur) { if (--m->depth == 0) { m->owner = -1; for (int i = 1; i <= g_cfg.nthreads; i++) if (g_state[i] == ST_BLOCKED && g_waitFor[i] == h) { g_state[i] = ST_RUNNABLE; g_waitFor[i] = nullptr; } } }
    reschedule(K_UNLOCK, cur);
}

} // namespace baton

// ---- ThreadSanitizer report capture. It lives in this uninstrumented translation unit on purpose: the runtime
// calls it on the reporting thread while it holds its report lock, and an instrumented callback that touches
// memory other threads' callbacks touched would itself be reported -> nested report -> deadlock.
extern "C" int __tsan_get_report_data(void* report, const char** description, int* count, int* stack_count, int* mop_count, int* loc_count, int* mutex_count, int* thread_count, int* unique_tid_count, void** sleep_trace, unsigned long trace_size);
extern "C" int __tsan_get_report_mop(void* report, unsigned long idx, int* tid, void** addr, int* size, int* write, int* atomic, void** trace, unsigned long trace_size);
namespace baton {
static RawReport g_reports[256]; static int g_nReports = 0; static int g_totalReports = 0;
void reportsReset() { g_nReports = 0; }
int reportsCount() { return g_nReports; }
int reportsTotal() { return g_totalReports; }
const RawReport& report(int i) { return g_reports[i]; }
}
extern "C" void __tsan_on_report(void* rep) {
    using namespace baton;
    const char* desc = ""; int count = 0, stacks = 0, mops = 0, locs = 0, mutexes = 0, threads = 0, uniq = 0; void* sleep[4];
    __tsan_get_report_data(rep, &desc, &count, &stacks, &mops, &locs, &mutexes, &threads, &uniq, sleep, 4);
    g_totalReports++;
    if (g_nReports >= 256) return;
    RawReport& r = g_reports[g_nReports++]; memset(&r, 0, sizeof r); strncpy(r.desc, desc ? desc : "", sizeof r.desc - 1); r.nmop = mops > 2 ? 2 : mops;
    for (int i = 0; i < r.nmop; i++) { int tid = 0, size = 0, atomic = 0; void* addr = 0; __tsan_get_report_mop(rep, (unsigned long)i, &tid, &addr, &size, &r.write[i], &atomic, r.pcs[i], 10); }
}
