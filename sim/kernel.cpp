// Driver: seeded batch of simulated runs over forked in-process workers; gate, shrink, replay, evidence.
// This file never touches xerces; engines do.
#include "kernel.hpp"
#include <sys/personality.h>
#include <sys/resource.h>
#include <sys/prctl.h>
#include <sys/wait.h>
#include <sys/stat.h>
#include <unistd.h>
#include <poll.h>
#include <fcntl.h>
#include <signal.h>
#include <sched.h>
#include <time.h>
#include <regex>
#include <unordered_set>
#include <algorithm>

// Classify sanitizer hits by exit code; LSan is driven explicitly by engines that want it.
extern "C" __attribute__((used, visibility("default"))) const char* __asan_default_options() {
    return "exitcode=77:detect_leaks=0:abort_on_error=0:quarantine_size_mb=2:allocator_release_to_os_interval_ms=-1:malloc_context_size=12:allocator_may_return_null=1:detect_stack_use_after_return=0:handle_segv=1:detect_odr_violation=0";
}
#if !defined(__has_feature) || !__has_feature(thread_sanitizer)
// (not in the TSan build: its runtime embeds UBSan's flag parser, and this exitcode would override TSan's)
extern "C" __attribute__((used, visibility("default"))) const char* __ubsan_default_options() {
    return "halt_on_error=1:exitcode=77:print_stacktrace=1";
}
#endif
extern "C" __attribute__((used, visibility("default"))) const char* __tsan_default_options() {
    // symbolize=0: reports are classified through the engine's own symbol table; a spawned llvm-symbolizer per
    // forked run would dominate the run time (set TSAN_OPTIONS=symbolize=1 when inspecting a replay by hand)
    return "exitcode=0:halt_on_error=0:report_signal_unsafe=0:second_deadlock_stack=1:symbolize=0";
}

namespace sim {

Run g_run;

void jsonRemoveAt(Json& arr, size_t i) { if (arr.t == Json::ARR && i < arr.a.size()) arr.a.erase(arr.a.begin() + (long)i); }

static double nowS() { timespec ts; clock_gettime(CLOCK_MONOTONIC, &ts); return ts.tv_sec + ts.tv_nsec * 1e-9; }

struct Known { std::string id, prop, what; std::regex cls; bool hasDetail = false; std::regex detail; };
static std::vector<Known> g_known;

static void loadKnown(const std::string& path, const std::string& prop) {
    std::string txt; if (!readFile(path, txt)) return;
    Json j;
    try { j = Json::parse(txt); } catch (std::exception& e) { fprintf(stderr, "known findings: %s\n", e.what()); exit(2); }
    for (auto& f : j.at("findings").a) {
        if (f.gets("property") != prop) continue;
        Known k; k.id = f.gets("id"); k.prop = prop; k.what = f.gets("what");
        k.cls = std::regex(f.gets("class"));
        if (f.has("detail")) { k.hasDetail = true; k.detail = std::regex(f.gets("detail")); }
        g_known.push_back(k);
    }
}
static const Known* matchKnown(const Outcome& o) {
    for (auto& k : g_known) {
        if (!std::regex_search(o.cls, k.cls)) continue;
        if (k.hasDetail && !std::regex_search(o.detail, k.detail)) continue;
        return &k;
    }
    return nullptr;
}

bool knownFindingMatches(const std::string& cls, const std::string& detail, std::string* idOut) {
    Outcome o; o.cls = cls; o.detail = detail; const Known* k = matchKnown(o); if (k && idOut) *idOut = k->id; return k != nullptr;
}

static std::string sanitize(std::string s) { for (auto& c : s) if (c == '\n' || c == '\t' || c == '\r') c = ' '; return s; }
static std::string fileSafe(std::string s) { for (auto& c : s) if (!isalnum((unsigned char)c) && c != '-' && c != '_' && c != '.') c = '_'; if (s.size() > 60) s.resize(60); return s; }

static std::string kv(const std::map<std::string, uint64_t>& m) {
    std::string s;
    for (auto& e : m) { if (!s.empty()) s += ','; std::string k = e.first.substr(0, 80); for (auto& c : k) if (c == ' ' || c == ',' || c == '=' || c == '\t' || c == '\n') c = '_'; s += k + "=" + std::to_string(e.second); }
    if (s.size() > 3900) s.resize(s.rfind(',', 3900));      // the line parser reads bounded fields
    return s.empty() ? "-" : s;
}
static void parseKv(const std::string& s, std::map<std::string, uint64_t>& m) {
    if (s == "-") return; size_t p = 0;
    while (p < s.size()) { size_t c = s.find(',', p); if (c == std::string::npos) c = s.size(); size_t e = s.find('=', p); if (e != std::string::npos && e < c) m[s.substr(p, e - p)] += strtoull(s.c_str() + e + 1, 0, 10); p = c + 1; }
}

struct Cfg {
    std::string prop, tier = "quick", replay, execPlan, shrinkFile, evidence, hashes, known = "/verif/known_findings.json", workDir = "/verif/build/work", replayDir = "/verif/replays";
    uint64_t seed = 1, runs = 0, start = 0; int workers = 8; double maxSeconds = 0; int detEvery = 16; double hangSeconds = 60; bool noShrink = false; bool trace = false; int workerIndex = -1;
};

// --- shrinking: greedy first-improvement over engine candidates
static Json shrinkPlan(Engine& eng, Json plan, const std::string& cls, std::function<std::string(const Json&)> test, int maxTests, double maxSec, int& testsUsed) {
    double t0 = nowS(); testsUsed = 0;
    bool progress = true;
    while (progress && testsUsed < maxTests && nowS() - t0 < maxSec) {
        progress = false;
        std::vector<Json> cands = eng.shrinkCandidates(plan);
        for (auto& c : cands) {
            if (testsUsed >= maxTests || nowS() - t0 >= maxSec) break;
            testsUsed++;
            if (test(c) == cls) { plan = c; progress = true; break; }
        }
    }
    return plan;
}

static std::string classInProcess(Engine& eng, const Json& plan) { Outcome o = eng.execute(plan); return o.violated ? o.cls : std::string(); }

// Extract a sanitizer/crash class from a worker's stderr text.
static std::string crashClass(const std::string& err, int status) {
    std::smatch m;
    // an engine that must leave the process to report (deadlocked threads, per-process de-duplicating detector) says so itself
    { size_t p = err.rfind("SIMVIOLATION "); if (p != std::string::npos) { size_t e = err.find('\n', p); return err.substr(p + 13, e == std::string::npos ? std::string::npos : e - p - 13); } }
    static const std::regex asan("SUMMARY: (AddressSanitizer|UndefinedBehaviorSanitizer|LeakSanitizer|ThreadSanitizer): ([A-Za-z0-9_-]+)[^\\n]*? in ([^\\n]+)");
    static const std::regex asan2("SUMMARY: (AddressSanitizer|UndefinedBehaviorSanitizer|LeakSanitizer|ThreadSanitizer): ([A-Za-z0-9_-]+) ([^\\n]+)");
    static const std::regex ub("([A-Za-z0-9_./-]+):(\\d+):\\d+: runtime error: ([^\\n]+)");
    if (std::regex_search(err, m, ub)) { std::string f = m[1]; size_t s = f.rfind('/'); if (s != std::string::npos) f = f.substr(s + 1); return "sanitizer:ubsan:" + f + ":" + m[2].str(); }
    if (std::regex_search(err, m, asan)) { std::string fn = m[3]; size_t p = fn.find('('); if (p != std::string::npos) fn = fn.substr(0, p); return "sanitizer:" + m[2].str() + ":" + fn; }
    if (std::regex_search(err, m, asan2)) return "sanitizer:" + m[2].str();
    if (WIFSIGNALED(status)) return "crash:signal" + std::to_string(WTERMSIG(status));
    if (WIFEXITED(status)) return "crash:exit" + std::to_string(WEXITSTATUS(status));
    return "crash:unknown";
}

static std::string g_prop, g_knownPath, g_workDir = "/verif/build/work";

// run a plan in a forked child; returns class ("" if not violated)
static std::string classInChild(Engine& eng, const Json& plan, const std::string& errPath, double timeoutS, std::string* detail = nullptr) {
    int pfd[2]; if (pipe(pfd)) return "crash:pipe";
    fflush(stdout); fflush(stderr);
    pid_t pid = fork();
    if (pid == 0) {
        close(pfd[0]);
        int efd = open(errPath.c_str(), O_WRONLY | O_CREAT | O_TRUNC, 0644); if (efd >= 0) { dup2(efd, 2); close(efd); }
        if (eng.runEachInForkedChild()) {
            // reproduce exactly the process lineage of the batch: fresh exec -> globalInit -> fork -> execute
            std::string pf = g_workDir + "/" + g_prop + ".plan." + std::to_string((long)getpid()) + ".json"; writeFile(pf, plan.dump());
            dup2(pfd[1], 1);
            execl("/proc/self/exe", "sim", "--prop", g_prop.c_str(), "--exec-plan", pf.c_str(), "--known", g_knownPath.c_str(), (char*)0);
            _exit(127);
        }
        eng.globalInit();
        Outcome o = eng.execute(plan);
        std::string line = (o.violated ? o.cls : std::string()) + "\t" + sanitize(o.detail) + "\n";
        (void)!write(pfd[1], line.data(), line.size());
        _exit(0);
    }
    close(pfd[1]);
    std::string buf; char tmp[4096]; double t0 = nowS(); bool killed = false;
    for (;;) {
        pollfd p{ pfd[0], POLLIN, 0 }; int r = poll(&p, 1, 200);
        if (r > 0) { ssize_t n = read(pfd[0], tmp, sizeof tmp); if (n <= 0) break; buf.append(tmp, (size_t)n); }
        if (nowS() - t0 > timeoutS) { kill(pid, SIGKILL); killed = true; break; }
    }
    close(pfd[0]);
    int status = 0; waitpid(pid, &status, 0);
    if (killed) return "hang";
    if (WIFEXITED(status) && WEXITSTATUS(status) == 0 && !buf.empty()) {
        size_t t = buf.find('\t'); std::string c = buf.substr(0, t);
        if (detail && t != std::string::npos) { *detail = buf.substr(t + 1); if (!detail->empty() && detail->back() == '\n') detail->pop_back(); }
        return c;
    }
    std::string err; readFile(errPath, err);
    if (detail) *detail = sanitize(err.substr(0, 600));
    return crashClass(err, status);
}

struct Viol { uint64_t index; std::string cls, detail, replay; bool crash; };

static void workerLoop(Engine& eng, const Cfg& cfg, int w, uint64_t start, int outFd, double deadline) {
    FILE* out = fdopen(outFd, "w");
    eng.globalInit();
    std::set<std::string> seenCls;
    for (uint64_t i = start; i < cfg.runs; i += (uint64_t)cfg.workers) {
        if (deadline > 0 && nowS() > deadline) { fprintf(out, "T %llu\n", (unsigned long long)i); break; }
        fprintf(out, "B %llu\n", (unsigned long long)i); fflush(out);
        pid_t runChild = -1;
        if (eng.runEachInForkedChild()) {
            // every run gets a pristine process image (detector state, allocator layout): what a run reports then
            // depends on its plan only, and a fresh-process replay sees exactly what the batch saw
            fflush(stderr); runChild = fork();
            if (runChild > 0) {
                int st = 0; waitpid(runChild, &st, 0);
                if (!(WIFEXITED(st) && WEXITSTATUS(st) == 0)) { fflush(out); _exit(WIFEXITED(st) ? WEXITSTATUS(st) : 99); }
                continue;
            }
            if (runChild == 0) prctl(PR_SET_PDEATHSIG, SIGKILL);
        }
        Json plan = eng.generate(cfg.seed, i, cfg.tier);
        Outcome o = eng.execute(plan);
        uint64_t h = g_run.logHash, ticks = g_run.ticks;
        std::map<std::string, uint64_t> faults = g_run.faults, probes = g_run.probes;
        if (cfg.detEvery > 0 && (i / (uint64_t)cfg.workers) % (uint64_t)cfg.detEvery == 0) {
            Outcome o2 = eng.execute(plan);
            bool sameClass = !eng.inProcessReexecutionReproducesClass() || (o2.cls == o.cls && o2.violated == o.violated);
            if (g_run.logHash != h || !sameClass) fprintf(out, "D %llu\t%s|%s\n", (unsigned long long)i, o.cls.c_str(), o2.cls.c_str());
            else fprintf(out, "E %llu\n", (unsigned long long)i);
        }
        if (o.violated && !eng.inProcessReexecutionReproducesClass() && !matchKnown(o)) {
            // leave the process: the parent re-executes the plan in fresh children (gate, shrink, replay)
            fflush(out); fprintf(stderr, "\nDETAIL %s\nSIMVIOLATION %s\n", sanitize(o.detail).substr(0, 1200).c_str(), o.cls.c_str()); fflush(stderr); _exit(78);
        }
        if (o.violated) {
            const Known* k = matchKnown(o);
            if (k) fprintf(out, "K %llu\t%s\n", (unsigned long long)i, k->id.c_str());
            else if (seenCls.count(o.cls) || seenCls.size() >= 4) fprintf(out, "W %llu\t%s\n", (unsigned long long)i, o.cls.c_str());
            else {
                seenCls.insert(o.cls);
                // gate: same plan twice more in-process
                Outcome a = eng.execute(plan); uint64_t ha = g_run.logHash; Outcome b = eng.execute(plan); uint64_t hb = g_run.logHash;
                if (!a.violated || !b.violated || a.cls != o.cls || b.cls != o.cls || ha != hb) {
                    fprintf(out, "N %llu\t%s|%s|%s\n", (unsigned long long)i, o.cls.c_str(), a.cls.c_str(), b.cls.c_str());
                } else {
                    Json best = plan; int used = 0;
                    if (!cfg.noShrink) best = shrinkPlan(eng, plan, o.cls, [&](const Json& c) { return classInProcess(eng, c); }, cfg.tier == "quick" ? 400 : 1500, cfg.tier == "quick" ? 20.0 : 60.0, used);
                    Outcome fin = eng.execute(best);
                    Json rf = Json::obj(); rf.set("property", eng.property()); rf.set("class", fin.cls); rf.set("detail", fin.detail); rf.set("seed", (long long)cfg.seed); rf.set("index", (long long)i); rf.set("tier", cfg.tier); rf.set("shrink_tests", used); rf.set("plan", best);
                    std::string path = cfg.replayDir + "/" + eng.property() + "-" + fileSafe(fin.cls) + "-" + std::to_string(cfg.seed) + "-" + std::to_string(i) + ".json";
                    writeFile(path, rf.dump(1) + "\n");
                    fprintf(out, "V %llu\t%s\t%s\t%s\n", (unsigned long long)i, fin.cls.c_str(), path.c_str(), sanitize(fin.detail).substr(0, 1500).c_str());
                }
            }
        }
        fprintf(out, "R %llu %llx %llx %llu %d %s %s\n", (unsigned long long)i, (unsigned long long)o.fingerprint, (unsigned long long)h, (unsigned long long)ticks, o.nontrivial ? 1 : 0, kv(faults).c_str(), kv(probes).c_str());
        fflush(out);
        if (runChild == 0) _exit(0);
    }
    fprintf(out, "F\n"); fflush(out);
}

int driverMain(int argc, char** argv, std::function<Engine*(const std::string&)> factory) {
    // ASLR off so that pointer-hashed tables behave identically in every process
    if (!getenv("VERIF_NOASLR_DONE")) {
        setenv("VERIF_NOASLR_DONE", "1", 1);
        // ASan unpoisons the shadow of the *whole* main-thread stack on every C++ throw (xerces throws at the end of
        // every entity); with the default 8 MB stack that is a 1 MB memset per throw and makes 16 workers memory-bound.
        { struct rlimit rl; if (getrlimit(RLIMIT_STACK, &rl) == 0) { rl.rlim_cur = 2u << 20; setrlimit(RLIMIT_STACK, &rl); } }
        int pers = personality(0xffffffff);
        if (pers != -1 && !(pers & ADDR_NO_RANDOMIZE) && personality(pers | ADDR_NO_RANDOMIZE) != -1) execv("/proc/self/exe", argv);
    }
    Cfg cfg;
    if (const char* s = getenv("VERIF_SEED")) if (*s) cfg.seed = strtoull(s, 0, 10);
    if (const char* s = getenv("VERIF_TIER")) if (*s) cfg.tier = s;
    bool tierGiven = false;
    long long dumpPlan = -1;      // --dump-plan <index>: print the plan the generator makes for (seed, index, tier) and stop
    for (int i = 1; i < argc; i++) {
        std::string a = argv[i]; auto nxt = [&]() -> std::string { if (i + 1 >= argc) { fprintf(stderr, "missing value for %s\n", a.c_str()); exit(2); } return argv[++i]; };
        if (a == "--prop") cfg.prop = nxt(); else if (a == "--tier") { cfg.tier = nxt(); tierGiven = true; } else if (a == "--seed") cfg.seed = strtoull(nxt().c_str(), 0, 10);
        else if (a == "--runs") cfg.runs = strtoull(nxt().c_str(), 0, 10); else if (a == "--workers") cfg.workers = atoi(nxt().c_str());
        else if (a == "--max-seconds") cfg.maxSeconds = atof(nxt().c_str()); else if (a == "--replay") cfg.replay = nxt(); else if (a == "--exec-plan") cfg.execPlan = nxt(); else if (a == "--shrink") cfg.shrinkFile = nxt();
        else if (a == "--evidence") cfg.evidence = nxt(); else if (a == "--hashes") cfg.hashes = nxt(); else if (a == "--known") cfg.known = nxt();
        else if (a == "--det-every") cfg.detEvery = atoi(nxt().c_str()); else if (a == "--no-shrink") cfg.noShrink = true; else if (a == "--trace") cfg.trace = true;
        else if (a == "--worker-index") cfg.workerIndex = atoi(nxt().c_str());
        else if (a == "--dump-plan") dumpPlan = (long long)strtoull(nxt().c_str(), 0, 10);
        else if (a == "--start") cfg.start = strtoull(nxt().c_str(), 0, 10); else if (a == "--hang-seconds") cfg.hangSeconds = atof(nxt().c_str());
        else { fprintf(stderr, "unknown argument %s\n", a.c_str()); return 2; }
    }
    (void)tierGiven;
    if (cfg.tier != "quick" && cfg.tier != "thorough") { fprintf(stderr, "bad tier\n"); return 2; }
    Engine* eng = factory(cfg.prop);
    if (!eng) { fprintf(stderr, "this engine does not serve property '%s'\n", cfg.prop.c_str()); return 2; }
    // VERIF_BUILD: a scratch build directory (used when the checks are pointed at a scratch worktree, e.g. to try a seeded change without touching /repo and /verif/build)
    if (const char* vb = getenv("VERIF_BUILD")) { cfg.workDir = std::string(vb) + "/work"; cfg.replayDir = std::string(vb) + "/replays"; mkdir(vb, 0755); }
    mkdir("/verif/build", 0755); mkdir(cfg.workDir.c_str(), 0755); mkdir(cfg.replayDir.c_str(), 0755);
    loadKnown(cfg.known, cfg.prop);
    g_run.trace = cfg.trace;

    g_prop = cfg.prop; g_knownPath = cfg.known; g_workDir = cfg.workDir;
    if (dumpPlan >= 0) { puts(eng->generate(cfg.seed, (uint64_t)dumpPlan, cfg.tier).dump().c_str()); return 0; }
    // ---- internal: execute one plan file the way a worker does (fresh image -> globalInit -> fork -> execute)
    if (!cfg.execPlan.empty()) {
        std::string txt; if (!readFile(cfg.execPlan, txt)) return 2; Json plan = Json::parse(txt); unlink(cfg.execPlan.c_str());
        eng->globalInit();
        pid_t c = eng->runEachInForkedChild() ? fork() : 0;
        if (c > 0) { int st = 0; waitpid(c, &st, 0); if (WIFEXITED(st)) _exit(WEXITSTATUS(st)); raise(WTERMSIG(st)); _exit(99); }
        Outcome o = eng->execute(plan);
        std::string line = (o.violated ? o.cls : std::string()) + "\t" + sanitize(o.detail) + "\n"; (void)!write(1, line.data(), line.size());
        _exit(0);
    }
    // ---- replay of a stored plan
    if (!cfg.replay.empty()) {
        std::string txt; if (!readFile(cfg.replay, txt)) { fprintf(stderr, "cannot read %s\n", cfg.replay.c_str()); return 2; }
        Json rf = Json::parse(txt); const Json& plan = rf.has("plan") ? rf.at("plan") : rf;
        eng->globalInit();
        if (eng->runEachInForkedChild()) {
            // same lineage as the batch (see above); the child reports, this process relays the verdict
            int pfd[2]; if (pipe(pfd)) return 2; fflush(stdout);
            pid_t c = fork();
            if (c == 0) { close(pfd[0]); Outcome o = eng->execute(plan); std::string line = std::string(o.violated ? "1" : "0") + "\t" + o.cls + "\t" + sanitize(o.detail) + "\n"; (void)!write(pfd[1], line.data(), line.size()); _exit(0); }
            close(pfd[1]); std::string out; char tmp[4096]; ssize_t n; while ((n = read(pfd[0], tmp, sizeof tmp)) > 0) out.append(tmp, (size_t)n); int st = 0; waitpid(c, &st, 0);
            Outcome o;
            if (out.empty()) { o.violated = true; o.cls = WIFEXITED(st) ? "crash:exit" + std::to_string(WEXITSTATUS(st)) : "crash:signal" + std::to_string(WTERMSIG(st)); o.detail = "the run left its process without a verdict (deadlocked threads or crash; see stderr)"; }
            else { size_t a = out.find('\t'), b = out.find('\t', a + 1); o.violated = out[0] == '1'; o.cls = out.substr(a + 1, b - a - 1); o.detail = out.substr(b + 1); }
            printf("REPLAY property=%s violated=%d class=%s \n", cfg.prop.c_str(), o.violated ? 1 : 0, o.cls.c_str());
            if (o.violated) { printf("DETAIL %s\n", o.detail.c_str()); const Known* k = matchKnown(o); if (k) { printf("KNOWN-FINDING: property=%s %s\n", cfg.prop.c_str(), k->what.c_str()); return 0; } printf("VIOLATION property=%s replay=%s\n", cfg.prop.c_str(), cfg.replay.c_str()); return 1; }
            return 0;
        }
        Outcome o = eng->execute(plan); uint64_t h1 = g_run.logHash;
        if (cfg.trace) fputs(g_run.traceText.c_str(), stderr);
        Outcome o2 = eng->execute(plan); uint64_t h2 = g_run.logHash;
        bool sameCls = !eng->inProcessReexecutionReproducesClass() || (o.violated == o2.violated && o.cls == o2.cls);
        if (!sameCls || h1 != h2) { printf("REPLAY nondeterministic class1=%s class2=%s\n", o.cls.c_str(), o2.cls.c_str()); return 2; }
        printf("REPLAY property=%s violated=%d class=%s loghash=%llx\n", cfg.prop.c_str(), o.violated ? 1 : 0, o.cls.c_str(), (unsigned long long)h1);
        if (o.violated) { printf("DETAIL %s\n", o.detail.c_str()); const Known* k = matchKnown(o); if (k) { printf("KNOWN-FINDING: property=%s %s\n", cfg.prop.c_str(), k->what.c_str()); return 0; } printf("VIOLATION property=%s replay=%s\n", cfg.prop.c_str(), cfg.replay.c_str()); return 1; }
        return 0;
    }

    // ---- re-shrink a stored plan in place
    if (!cfg.shrinkFile.empty()) {
        std::string txt; if (!readFile(cfg.shrinkFile, txt)) { fprintf(stderr, "cannot read %s\n", cfg.shrinkFile.c_str()); return 2; }
        Json rf = Json::parse(txt); Json plan = rf.has("plan") ? rf.at("plan") : rf;
        eng->globalInit(); Outcome o = eng->execute(plan);
        if (!o.violated) { printf("plan does not violate\n"); return 0; }
        int used = 0; Json best = shrinkPlan(*eng, plan, o.cls, [&](const Json& c) { return classInProcess(*eng, c); }, 20000, cfg.maxSeconds > 0 ? cfg.maxSeconds : 300.0, used);
        Outcome fin = eng->execute(best); rf.set("plan", best); rf.set("class", fin.cls); rf.set("detail", fin.detail); rf.set("shrink_tests", used);
        writeFile(cfg.shrinkFile, rf.dump(1) + "\n"); printf("shrunk with %d tests: %s %s\n", used, fin.cls.c_str(), fin.detail.c_str()); return 0;
    }

    if (cfg.runs == 0) cfg.runs = eng->defaultRuns(cfg.tier);
    if (cfg.workers < 1) cfg.workers = 1;
    if (cfg.workerIndex >= 0) {
        // pin: an unmap in a process that has migrated needs remote TLB shootdowns, which are very slow in this VM
        long ncpu = sysconf(_SC_NPROCESSORS_ONLN); if (ncpu > 0) { cpu_set_t set; CPU_ZERO(&set); CPU_SET((int)(cfg.workerIndex % ncpu), &set); sched_setaffinity(0, sizeof set, &set); }
    }
    if (cfg.workerIndex >= 0) { workerLoop(*eng, cfg, cfg.workerIndex, cfg.start, 1, cfg.maxSeconds > 0 ? nowS() + cfg.maxSeconds : 0); return 0; }
    double t0 = nowS(); double deadline = cfg.maxSeconds > 0 ? t0 + cfg.maxSeconds : 0;

    struct W { pid_t pid = -1; int fd = -1; std::string buf; int64_t open = -1; double last = 0; double cpuAtLast = 0; bool done = false; uint64_t next = 0; std::string err; };
    // CPU seconds (user + system) a worker has consumed: a worker that makes no progress is only a hang when it burns CPU meanwhile
    // (or stays silent ten times longer) - on a loaded machine a starved worker is not
    auto cpuOf = [](pid_t pid) { char path[64]; snprintf(path, sizeof path, "/proc/%d/stat", (int)pid); std::string t; if (!readFile(path, t)) return 0.0; size_t rp = t.rfind(')'); if (rp == std::string::npos) return 0.0; unsigned long ut = 0, st = 0; int field = 3; size_t i = rp + 2;
        while (i < t.size() && field < 14) { if (t[i] == ' ') field++; i++; } if (sscanf(t.c_str() + i, "%lu %lu", &ut, &st) != 2) return 0.0; return (double)(ut + st) / (double)sysconf(_SC_CLK_TCK); };
    std::vector<W> ws((size_t)cfg.workers);
    auto spawn = [&](int w, uint64_t start) {
        int pfd[2]; if (pipe(pfd)) { perror("pipe"); exit(2); }
        fflush(stdout); fflush(stderr);
        ws[(size_t)w].err = cfg.workDir + "/" + cfg.prop + ".w" + std::to_string(w) + ".err";
        pid_t pid = fork();
        if (pid == 0) {
            close(pfd[0]); for (auto& o : ws) if (o.fd >= 0) close(o.fd);
            int efd = open(ws[(size_t)w].err.c_str(), O_WRONLY | O_CREAT | O_TRUNC, 0644); if (efd >= 0) { dup2(efd, 2); close(efd); }
            // exec a fresh image: forked siblings share anon_vma locks with the parent, which makes page-fault heavy
            // sanitizer workers contend badly with each other; a fresh exec has its own address-space lineage
            dup2(pfd[1], 1); if (pfd[1] != 1) close(pfd[1]);
            std::string sSeed = std::to_string(cfg.seed), sRuns = std::to_string(cfg.runs), sW = std::to_string(cfg.workers), sIdx = std::to_string(w), sStart = std::to_string(start), sDet = std::to_string(cfg.detEvery), sDl = std::to_string(deadline > 0 ? std::max(1.0, deadline - nowS()) : 0.0);
            std::vector<const char*> av = { argv[0], "--prop", cfg.prop.c_str(), "--tier", cfg.tier.c_str(), "--seed", sSeed.c_str(), "--runs", sRuns.c_str(), "--workers", sW.c_str(), "--worker-index", sIdx.c_str(), "--start", sStart.c_str(), "--det-every", sDet.c_str(), "--max-seconds", sDl.c_str(), "--known", cfg.known.c_str() };
            if (cfg.noShrink) av.push_back("--no-shrink");
            av.push_back(nullptr);
            execv("/proc/self/exe", (char* const*)av.data());
            _exit(127);
        }
        close(pfd[1]); ws[(size_t)w].pid = pid; ws[(size_t)w].fd = pfd[0]; ws[(size_t)w].buf.clear(); ws[(size_t)w].open = -1; ws[(size_t)w].last = nowS(); ws[(size_t)w].cpuAtLast = 0; ws[(size_t)w].done = false;
    };
    for (int w = 0; w < cfg.workers; w++) spawn(w, cfg.start + (uint64_t)w);

    uint64_t evaluations = 0, totalTicks = 0, detReruns = 0, detMismatch = 0, gateFail = 0, timedOutAt = 0; bool timedOut = false;
    std::unordered_set<uint64_t> distinct; std::map<std::string, uint64_t> faults, probes, knownHits, dupViol;
    std::vector<Viol> viols; std::vector<std::pair<uint64_t, uint64_t>> hashes; std::vector<std::string> harnessErrors;

    auto handleLine = [&](W& w, const std::string& ln) {
        if (ln.empty()) return; char t = ln[0]; const char* rest = ln.c_str() + (ln.size() > 2 ? 2 : 1);
        w.last = nowS(); w.cpuAtLast = cpuOf(w.pid);
        switch (t) {
        case 'B': w.open = (int64_t)strtoull(rest, 0, 10); break;
        case 'R': {
            unsigned long long i, fp, h, ticks; int nt; char fb[4096], pb[4096];
            if (sscanf(rest, "%llu %llx %llx %llu %d %4095s %4095s", &i, &fp, &h, &ticks, &nt, fb, pb) == 7) {
                evaluations++; totalTicks += ticks; if (nt) distinct.insert(fp); parseKv(fb, faults); parseKv(pb, probes);
                if (!cfg.hashes.empty()) hashes.emplace_back(i, h);
            }
            w.open = -1; break; }
        case 'E': detReruns++; break;
        case 'D': detReruns++; detMismatch++; harnessErrors.push_back("determinism mismatch at run " + std::string(rest)); break;
        case 'N': gateFail++; harnessErrors.push_back("violation not reproducible in-process at run " + std::string(rest)); break;
        case 'K': { const char* tab = strchr(rest, '\t'); if (tab) knownHits[tab + 1]++; break; }
        case 'W': { const char* tab = strchr(rest, '\t'); if (tab) dupViol[tab + 1]++; break; }
        case 'V': {
            std::vector<std::string> f; size_t p = 2; while (p <= ln.size()) { size_t q = ln.find('\t', p); if (q == std::string::npos) q = ln.size(); f.push_back(ln.substr(p, q - p)); p = q + 1; }
            if (f.size() >= 3) viols.push_back(Viol{ strtoull(f[0].c_str(), 0, 10), f[1], f.size() > 3 ? f[3] : "", f[2], false });
            break; }
        case 'T': timedOut = true; timedOutAt = strtoull(rest, 0, 10); break;
        case 'F': w.done = true; break;
        }
    };

    for (;;) {
        std::vector<pollfd> pf; std::vector<int> idx;
        for (int w = 0; w < cfg.workers; w++) if (ws[(size_t)w].fd >= 0) { pf.push_back(pollfd{ ws[(size_t)w].fd, POLLIN, 0 }); idx.push_back(w); }
        if (pf.empty()) break;
        int r = poll(pf.data(), pf.size(), 500);
        double now = nowS();
        for (size_t k = 0; k < pf.size(); k++) {
            W& w = ws[(size_t)idx[k]];
            if (r > 0 && (pf[k].revents & (POLLIN | POLLHUP))) {
                char tmp[65536]; ssize_t n = read(w.fd, tmp, sizeof tmp);
                if (n > 0) { w.buf.append(tmp, (size_t)n); size_t p; while ((p = w.buf.find('\n')) != std::string::npos) { handleLine(w, w.buf.substr(0, p)); w.buf.erase(0, p + 1); } }
                else {
                    close(w.fd); w.fd = -1; int status = 0; waitpid(w.pid, &status, 0);
                    if (!w.done) {
                        // worker died: attribute to the open run
                        std::string err; readFile(w.err, err);
                        if (w.open >= 0) {
                            std::string cls = crashClass(err, status);
                            // an engine that left the process to report wrote its own detail line in front of the class: that, not the head of stderr, is what known findings are matched against
                            std::string det = sanitize(err.substr(0, 1500)); { size_t sp = err.rfind("SIMVIOLATION "), dp = sp == std::string::npos ? sp : err.rfind("\nDETAIL ", sp); if (dp != std::string::npos) { size_t e = err.find('\n', dp + 1); det = sanitize(err.substr(dp + 8, e == std::string::npos ? std::string::npos : e - dp - 8)); } }
                            viols.push_back(Viol{ (uint64_t)w.open, cls, det, "", true });
                            evaluations++;
                            uint64_t nextStart = (uint64_t)w.open + (uint64_t)cfg.workers;
                            if (nextStart < cfg.runs && viols.size() < 64) spawn(idx[k], nextStart);
                        } else harnessErrors.push_back("worker died outside a run: " + sanitize(err.substr(0, 400)));
                    }
                }
            } else if (w.fd >= 0 && w.open >= 0 && now - w.last > cfg.hangSeconds && (cpuOf(w.pid) - w.cpuAtLast > cfg.hangSeconds * 0.8 || now - w.last > 10 * cfg.hangSeconds)) {
                kill(w.pid, SIGKILL); close(w.fd); w.fd = -1; int status = 0; waitpid(w.pid, &status, 0);
                viols.push_back(Viol{ (uint64_t)w.open, "hang", "no progress for " + std::to_string((int)cfg.hangSeconds) + " s of CPU time (no seam touched)", "", true });
                evaluations++;
                uint64_t nextStart = (uint64_t)w.open + (uint64_t)cfg.workers;
                if (nextStart < cfg.runs && viols.size() < 64) spawn(idx[k], nextStart);
            }
        }
    }

    // ---- crash violations: confirm in a fresh child, shrink by forked execution, write replay
    eng->globalInit();  // parent needs generate() only; harmless
    std::set<std::string> crashSeen;
    std::set<std::string> crashTried;
    for (auto& v : viols) if (v.crash) {
        // many runs may die the same way: confirm and shrink only the first of each class as first observed
        if (crashTried.count(v.cls)) { dupViol[v.cls]++; v.cls.clear(); continue; }
        crashTried.insert(v.cls);
        Json plan = eng->generate(cfg.seed, v.index, cfg.tier);
        std::string errp = cfg.workDir + "/" + cfg.prop + ".shrink.err";
        std::string det; std::string c1 = classInChild(*eng, plan, errp, cfg.hangSeconds, &det);
        if (c1 != v.cls) { std::string c2 = classInChild(*eng, plan, errp, cfg.hangSeconds, &det); if (c2 != c1 || c1.empty()) { harnessErrors.push_back("crash at run " + std::to_string(v.index) + " (" + v.cls + ") did not reproduce in a fresh child (got '" + c1 + "')"); v.cls.clear(); continue; } v.cls = c1; }
        Outcome fake; fake.violated = true; fake.cls = v.cls; fake.detail = v.detail;
        if (const Known* k = matchKnown(fake)) { knownHits[k->id]++; v.cls.clear(); continue; }
        if (crashSeen.count(v.cls)) { dupViol[v.cls]++; v.cls.clear(); continue; }
        crashSeen.insert(v.cls);
        int used = 0; Json best = plan;
        if (!cfg.noShrink) best = shrinkPlan(*eng, plan, v.cls, [&](const Json& c) { return classInChild(*eng, c, errp, 30.0); }, 150, 60.0, used);
        Json rf = Json::obj(); rf.set("property", eng->property()); rf.set("class", v.cls); rf.set("detail", v.detail); rf.set("seed", (long long)cfg.seed); rf.set("index", (long long)v.index); rf.set("tier", cfg.tier); rf.set("shrink_tests", used); rf.set("plan", best);
        v.replay = cfg.replayDir + "/" + eng->property() + "-" + fileSafe(v.cls) + "-" + std::to_string(cfg.seed) + "-" + std::to_string(v.index) + ".json";
        writeFile(v.replay, rf.dump(1) + "\n");
    }
    viols.erase(std::remove_if(viols.begin(), viols.end(), [](const Viol& v) { return v.cls.empty(); }), viols.end());
    // dedupe classes across workers (keep the first = lowest index)
    std::sort(viols.begin(), viols.end(), [](const Viol& a, const Viol& b) { return a.index < b.index; });
    { std::set<std::string> seen; std::vector<Viol> u; for (auto& v : viols) { if (seen.insert(v.cls).second) u.push_back(v); else dupViol[v.cls]++; } viols.swap(u); }

    // ---- fresh-process replay gate for every reported violation
    for (auto& v : viols) {
        std::string cmd = std::string("/proc/self/exe");
        int pfd[2]; if (pipe(pfd)) continue; fflush(stdout);
        pid_t pid = fork();
        if (pid == 0) { close(pfd[0]); dup2(pfd[1], 1); int nul = open("/dev/null", O_WRONLY); dup2(nul, 2);
            execl("/proc/self/exe", argv[0], "--prop", cfg.prop.c_str(), "--replay", v.replay.c_str(), "--known", "/nonexistent", (char*)0); _exit(127); }
        close(pfd[1]); std::string out; char tmp[4096]; ssize_t n; while ((n = read(pfd[0], tmp, sizeof tmp)) > 0) out.append(tmp, (size_t)n); close(pfd[0]);
        int status = 0; waitpid(pid, &status, 0);
        bool ok;
        if (v.crash) { ok = !(WIFEXITED(status) && (WEXITSTATUS(status) == 0)); }   // a crash replay must die again
        else ok = WIFEXITED(status) && WEXITSTATUS(status) == 1 && out.find("class=" + v.cls + " ") != std::string::npos;
        if (!ok) harnessErrors.push_back("fresh-process replay of " + v.replay + " did not reproduce class " + v.cls + " (status " + std::to_string(status) + ")");
    }

    double wall = nowS() - t0;
    // ---- evidence
    if (!cfg.evidence.empty()) {
        Json ev = Json::obj();
        ev.set("property_id", cfg.prop); ev.set("tier", cfg.tier); ev.set("seed", (long long)cfg.seed); ev.set("level", eng->level());
        Json cov = Json::obj();
        cov.set("evaluations", (long long)evaluations); cov.set("distinct_nontrivial", (long long)distinct.size()); cov.set("rule", eng->rule());
        Json samples = Json::arr(); for (uint64_t i = 0; i < 3 && i < cfg.runs; i++) samples.push(eng->sampleView(eng->generate(cfg.seed, cfg.start + i, cfg.tier)));
        cov.set("samples", samples);
        cov.set("runs_planned", (long long)cfg.runs); cov.set("stopped_by_wall_clock_cap", timedOut);
        cov.set("simulated_steps_total", (long long)totalTicks);
        cov.set("runs_per_hour", wall > 0 ? (double)evaluations * 3600.0 / wall : 0.0);
        cov.set("workers", cfg.workers);
        Json fj = Json::obj(); for (auto& e : faults) fj.set(e.first, (long long)e.second); cov.set("fault_counts_fired", fj);
        Json pj = Json::obj(); for (auto& e : probes) pj.set(e.first, (long long)e.second); cov.set("reach_probes", pj);
        cov.set("determinism_reruns", (long long)detReruns); cov.set("determinism_mismatches", (long long)detMismatch);
        Json kj = Json::obj(); for (auto& e : knownHits) kj.set(e.first, (long long)e.second); cov.set("known_findings_matched", kj);
        Json dj = Json::obj(); for (auto& e : dupViol) dj.set(e.first, (long long)e.second); cov.set("further_runs_with_same_violation_class", dj);
        Json desc = eng->describe();
        for (auto& kvp : desc.o) if (kvp.first != "assumptions") cov.set(kvp.first, kvp.second);
        ev.set("coverage", cov);
        ev.set("assumptions", desc.has("assumptions") ? desc.at("assumptions") : Json::arr());
        ev.set("wall_s", wall); ev.set("violations", (long long)viols.size());
        Json vj = Json::arr(); for (auto& v : viols) { Json x = Json::obj(); x.set("class", v.cls); x.set("replay", v.replay); x.set("index", (long long)v.index); vj.push(x); } ev.set("violation_list", vj);
        Json he = Json::arr(); for (auto& h : harnessErrors) he.push(h); ev.set("harness_errors", he);
        writeFile(cfg.evidence, ev.dump(1) + "\n");
    }
    if (!cfg.hashes.empty()) { std::sort(hashes.begin(), hashes.end()); std::string s; char b[64]; for (auto& h : hashes) { snprintf(b, sizeof b, "%llu %llx\n", (unsigned long long)h.first, (unsigned long long)h.second); s += b; } writeFile(cfg.hashes, s); }

    printf("SUMMARY property=%s tier=%s seed=%llu runs=%llu distinct_nontrivial=%zu steps=%llu wall=%.1fs det_reruns=%llu det_mismatch=%llu%s\n", cfg.prop.c_str(), cfg.tier.c_str(), (unsigned long long)cfg.seed, (unsigned long long)evaluations, distinct.size(), (unsigned long long)totalTicks, wall, (unsigned long long)detReruns, (unsigned long long)detMismatch, timedOut ? " (wall-clock cap reached)" : "");
    printf("FAULTS %s\nPROBES %s\n", kv(faults).c_str(), kv(probes).c_str());
    (void)timedOutAt;
    for (auto& e : knownHits) { std::string what; for (auto& k : g_known) if (k.id == e.first) what = k.what; printf("KNOWN-FINDING: property=%s %s [%s, %llu runs]\n", cfg.prop.c_str(), what.c_str(), e.first.c_str(), (unsigned long long)e.second); }
    for (auto& h : harnessErrors) printf("HARNESS-ERROR %s\n", h.c_str());
    for (auto& v : viols) { printf("VIOLATION property=%s replay=%s\n", cfg.prop.c_str(), v.replay.c_str()); printf("  class=%s index=%llu %s\n", v.cls.c_str(), (unsigned long long)v.index, v.detail.substr(0, 600).c_str()); }
    fflush(stdout);
    if (!harnessErrors.empty()) return 2;
    return viols.empty() ? 0 : 1;
}

} // namespace sim
