// RefDOM: a small executable reference model of DOM Core tree semantics (Level 2/3), written from the
// specification. It knows nothing about xerces. Used step by step against the real DOM (C13) and as the tree
// under the reference views of C14 (sim/refviews.hpp), which observe every primitive tree mutation.
#pragma once
#include <string>
#include <vector>
#include <set>
#include <algorithm>
#include <cstdint>

namespace refdom {

enum Type { ELEMENT = 1, ATTRIBUTE = 2, TEXT = 3, CDATA = 4, ENTITY_REFERENCE = 5, ENTITY = 6, PI = 7, COMMENT = 8, DOCUMENT = 9, DOCUMENT_TYPE = 10, FRAGMENT = 11, NOTATION = 12 };
enum Err { OK = 0, INDEX_SIZE_ERR = 1, HIERARCHY_REQUEST_ERR = 3, WRONG_DOCUMENT_ERR = 4, INVALID_CHARACTER_ERR = 5, NO_MODIFICATION_ALLOWED_ERR = 7, NOT_FOUND_ERR = 8, NOT_SUPPORTED_ERR = 9, INUSE_ATTRIBUTE_ERR = 10, INVALID_STATE_ERR = 11, NAMESPACE_ERR = 14 };

struct Node {
    int id = 0; int type = 0; std::u16string name, ns, value; bool hasNs = false;
    Node* parent = nullptr; std::vector<Node*> kids; std::vector<Node*> attrs; Node* ownerElement = nullptr; Node* doc = nullptr;
    bool released = false; bool readOnly = false; long ud[2] = { 0, 0 };     // user data values by key index (0 = none)
    bool idAttr = false;        // attribute declared to be of type ID (setIdAttribute*)
    bool isCharData() const { return type == TEXT || type == CDATA || type == COMMENT; }
    int indexInParent() const { if (!parent) return -1; for (size_t i = 0; i < parent->kids.size(); i++) if (parent->kids[i] == this) return (int)i; return -1; }
    Node* next() const { int i = indexInParent(); return i >= 0 && (size_t)i + 1 < parent->kids.size() ? parent->kids[(size_t)i + 1] : nullptr; }
    Node* prev() const { int i = indexInParent(); return i > 0 ? parent->kids[(size_t)i - 1] : nullptr; }
    Node* ownerDoc() const { return type == DOCUMENT ? nullptr : doc; }
    Node* root() { Node* n = this; while (n->parent) n = n->parent; return n; }
    // length in the sense of DOM Range: characters for character data and PIs, children otherwise
    size_t length() const { return (isCharData() || type == PI) ? value.size() : kids.size(); }
};

// outcome of a model operation: which errors the specification allows for it (empty = must succeed)
// `refusal`: codes an implementation may answer with although the call is legal, as a documented or conservative
// refusal - the tree must then be unchanged and the model skips the step (kept to narrowly named shapes)
struct Verdict { std::set<int> errs; std::set<int> refusal; bool open = false; bool ok() const { return errs.empty(); } void add(int e) { errs.insert(e); } };      // open: the case is implementation defined, callers do not execute it

inline bool isNameStart(char16_t c) { return (c >= u'a' && c <= u'z') || (c >= u'A' && c <= u'Z') || c == u'_' || c == u':' || c >= 0xC0; }
inline bool isNameChar(char16_t c) { return isNameStart(c) || (c >= u'0' && c <= u'9') || c == u'-' || c == u'.' || c == 0xB7; }
inline bool validName(const std::u16string& s) { if (s.empty() || !isNameStart(s[0])) return false; for (auto c : s) if (!isNameChar(c)) return false; return true; }

// views (iterators, ranges, ...) observe the primitive mutations of the tree
struct Observer {
    virtual ~Observer() {}
    virtual void preRemove(Node*) {}                                            // n is about to be removed from its parent (still attached)
    virtual void inserted(Node* /*parent*/, size_t /*index*/) {}                // one node has been inserted into parent at index
    virtual void dataReplaced(Node*, size_t /*off*/, size_t /*count*/, size_t /*newLen*/) {}  // characters [off, off+count) replaced by newLen characters
    virtual void textSplit(Node* /*orig*/, Node* /*tail*/, size_t /*off*/) {}   // orig has been cut at off; tail (already inserted behind it if orig has a parent) carries the rest
};

class Model {
public:
    std::vector<Node*> all;      // every node ever created (ids are indices)
    std::vector<Observer*> observers;
    ~Model() { for (auto n : all) delete n; }
    Node* make(int type, Node* doc, const std::u16string& name = u"", const std::u16string& value = u"") { Node* n = new Node(); n->id = (int)all.size(); n->type = type; n->doc = type == DOCUMENT ? n : doc; n->name = name; n->value = value; all.push_back(n); return n; }

    static bool canHaveChildren(int t) { return t == ELEMENT || t == DOCUMENT || t == FRAGMENT || t == ATTRIBUTE || t == ENTITY_REFERENCE || t == ENTITY; }
    static bool kidOK(const Node* p, const Node* c) {
        switch (p->type) {
        case DOCUMENT: return c->type == ELEMENT || c->type == PI || c->type == COMMENT || c->type == DOCUMENT_TYPE;
        case ELEMENT: case FRAGMENT: case ENTITY_REFERENCE: case ENTITY: return c->type == ELEMENT || c->type == PI || c->type == COMMENT || c->type == TEXT || c->type == CDATA || c->type == ENTITY_REFERENCE;
        case ATTRIBUTE: return c->type == TEXT || c->type == ENTITY_REFERENCE;
        default: return false;
        }
    }
    static bool isAncestorOrSelf(const Node* a, const Node* n) { for (const Node* p = n; p; p = p->parent) if (p == a) return true; return false; }
    static int countKids(const Node* p, int type, const Node* except = nullptr) { int c = 0; for (auto k : p->kids) if (k->type == type && k != except) c++; return c; }
    static void setDocRec(Node* n, Node* doc) { n->doc = doc; for (auto k : n->kids) setDocRec(k, doc); for (auto a : n->attrs) setDocRec(a, doc); }

    // ---- primitive mutations (observed)
    void removeNode(Node* n) { if (!n->parent) return; for (auto o : observers) o->preRemove(n); auto& v = n->parent->kids; v.erase(std::find(v.begin(), v.end(), n)); n->parent = nullptr; }
    void insertAt(Node* parent, Node* n, size_t pos) { parent->kids.insert(parent->kids.begin() + (long)pos, n); n->parent = parent; for (auto o : observers) o->inserted(parent, pos); }
    void replaceData(Node* n, size_t off, size_t count, const std::u16string& text) { count = std::min(count, n->value.size() - off); n->value.replace(off, count, text); for (auto o : observers) o->dataReplaced(n, off, count, text.size()); }
    Node* splitText(Node* n, size_t off) {
        Node* t = make(n->type, n->doc, n->name, n->value.substr(off));
        if (n->parent) { insertAt(n->parent, t, (size_t)n->indexInParent() + 1); n->value.resize(off); for (auto o : observers) o->textSplit(n, t, off); }
        else replaceData(n, off, n->value.size() - off, u"");       // no parent: the tail node is not in any tree, boundary points cannot follow it - the cut is a plain deletion
        return t;
    }

    // ---- preconditions of insertBefore(parent, newChild, refChild); `replacing` = node that will go away (replaceChild)
    Verdict checkInsert(Node* parent, Node* nw, Node* ref, Node* replacing = nullptr) {
        Verdict v;
        if (parent->readOnly || (nw->parent && nw->parent->readOnly)) v.add(NO_MODIFICATION_ALLOWED_ERR);
        if (!canHaveChildren(parent->type)) v.add(HIERARCHY_REQUEST_ERR);      // (precedence among several violated preconditions is open: collect all)
        Node* pdoc = parent->type == DOCUMENT ? parent : parent->doc;
        if (nw->type == DOCUMENT) { v.add(HIERARCHY_REQUEST_ERR); v.add(WRONG_DOCUMENT_ERR); }     // a Document is never a child; its ownerDocument is null, so "wrong document" is an equally valid complaint
        else if (nw->doc != pdoc) v.add(WRONG_DOCUMENT_ERR);
        if (isAncestorOrSelf(nw, parent)) v.add(HIERARCHY_REQUEST_ERR);
        if (ref && ref->parent != parent) v.add(NOT_FOUND_ERR);
        std::vector<Node*> incoming; if (nw->type == FRAGMENT) incoming = nw->kids; else incoming.push_back(nw);
        int elems = parent->type == DOCUMENT ? countKids(parent, ELEMENT, replacing) : 0, dts = parent->type == DOCUMENT ? countKids(parent, DOCUMENT_TYPE, replacing) : 0;
        for (auto c : incoming) {
            // xerces-c deliberately accepts white-space-only Text nodes as children of a Document (to keep the white space of the prolog): not judged
            if (parent->type == DOCUMENT && c->type == TEXT && !c->value.empty() && c->value.find_first_not_of(u" \t\r\n") == std::u16string::npos) v.open = true;
            if (!kidOK(parent, c)) v.add(HIERARCHY_REQUEST_ERR);
            if (parent->type == DOCUMENT && c->type == ELEMENT && !(c->parent == parent && c != replacing)) { if (++elems > 1) v.add(HIERARCHY_REQUEST_ERR); }
            if (parent->type == DOCUMENT && c->type == DOCUMENT_TYPE && !(c->parent == parent && c != replacing)) { if (++dts > 1) v.add(HIERARCHY_REQUEST_ERR); }
        }
        if (nw->type == ATTRIBUTE) v.add(HIERARCHY_REQUEST_ERR);
        // Moving the document element / doctype within its own document is legal (the node is removed first), but an
        // implementation that guards "only one element child" before the removal refuses it: tolerated as a refusal.
        if (parent->type == DOCUMENT && nw->parent == parent && (nw->type == ELEMENT || nw->type == DOCUMENT_TYPE)) { if (v.ok()) v.refusal.insert(HIERARCHY_REQUEST_ERR); else v.add(HIERARCHY_REQUEST_ERR); }
        return v;
    }
    // a fragment's children are moved one by one (each a removal from the fragment and an insertion)
    void doInsert(Node* parent, Node* nw, Node* ref) {
        if (nw->type == FRAGMENT) { while (!nw->kids.empty()) { Node* c = nw->kids[0]; removeNode(c); insertAt(parent, c, ref ? (size_t)ref->indexInParent() : parent->kids.size()); } return; }
        if (nw == ref) ref = nw->next();
        removeNode(nw); insertAt(parent, nw, ref ? (size_t)ref->indexInParent() : parent->kids.size());
    }
    Verdict insertBefore(Node* parent, Node* nw, Node* ref) { Verdict v = checkInsert(parent, nw, ref); if (v.ok()) doInsert(parent, nw, ref); return v; }
    Verdict removeChild(Node* parent, Node* child) { Verdict v; if (child->parent != parent) { v.add(NOT_FOUND_ERR); return v; } removeNode(child); return v; }
    // The order "insert the new node in front of the old one, then remove the old one" is not fixed by DOM Level 2 (it
    // only shows in where a Range boundary point that sat right behind the old node ends up); it is the order xerces-c uses.
    Verdict replaceChild(Node* parent, Node* nw, Node* old) {
        Verdict v; if (old->parent != parent) v.add(NOT_FOUND_ERR);
        if (nw == old) { return v; }
        Verdict c = checkInsert(parent, nw, nullptr, old->parent == parent ? old : nullptr); for (int e : c.errs) v.add(e);
        if (!v.ok()) return v;
        doInsert(parent, nw, old); removeNode(old); return v;
    }
    Node* cloneRec(Node* n, Node* doc, bool deep) {
        Node* c = make(n->type, doc, n->name, n->value); c->ns = n->ns; c->hasNs = n->hasNs; c->readOnly = n->readOnly;
        for (auto a : n->attrs) { Node* ac = cloneRec(a, doc, true); ac->ownerElement = c; c->attrs.push_back(ac); }
        if (deep || n->type == ATTRIBUTE) for (auto k : n->kids) { Node* kc = cloneRec(k, doc, true); kc->parent = c; c->kids.push_back(kc); }
        return c;
    }
    // attribute value is kept in the attribute's text children; the model stores the flattened string too
    static std::u16string textOf(const Node* n) { if (n->type == TEXT || n->type == CDATA || n->type == ATTRIBUTE) return n->value; std::u16string s; for (auto k : n->kids) if (k->type != COMMENT && k->type != PI) s += textOf(k); return s; }
    Node* findAttr(Node* el, const std::u16string& name) { for (auto a : el->attrs) if (a->name == name) return a; return nullptr; }
    // (the Text children that carry an attribute's value are an implementation detail the model does not mirror)
    void setAttrValue(Node* a, const std::u16string& val) { a->value = val; }
    // adjacent Text nodes are merged into the first (append, then removal of the second), empty Text nodes are removed;
    // the removed nodes stay alive as detached nodes
    void normalize(Node* n) {
        for (size_t i = 0; i < n->kids.size();) {
            Node* k = n->kids[i];
            if (k->type == TEXT) {
                while (i + 1 < n->kids.size() && n->kids[i + 1]->type == TEXT) { Node* nx = n->kids[i + 1]; replaceData(k, k->value.size(), 0, nx->value); removeNode(nx); merged.push_back(nx); }
                if (k->value.empty()) { removeNode(k); merged.push_back(k); continue; }
            } else normalize(k);
            i++;
        }
    }
    std::vector<Node*> merged;   // nodes that normalize() removed from the tree
};

} // namespace refdom
