# Harness build. Variants: asan (single-threaded engines), tsan (threadsim).
REPO ?= /repo
B ?= /verif/build
CXX := clang++
COMMON := -std=c++17 -O1 -g -fno-omit-frame-pointer -Wall -Wno-unused-function -Wno-overloaded-virtual -DXERCES_VERIF_HOOKS -MMD -MP
ASAN := -fsanitize=address,undefined -fno-sanitize-recover=undefined -fno-sanitize=vptr,nonnull-attribute
TSAN := -fsanitize=thread
INC_ASAN := -I$(REPO)/src -I$(B)/asan/src
INC_TSAN := -I$(REPO)/src -I$(B)/tsan/src
SYSLIBS := $(shell pkg-config --libs icu-uc icu-i18n) -lcurl -lpthread
LIBS_ASAN := $(B)/asan/src/libxerces-c.a $(SYSLIBS)
LIBS_TSAN := $(B)/tsan/src/libxerces-c.a $(SYSLIBS)

ENGINES_ASAN := $(patsubst engines/%.cpp,%,$(filter-out engines/threadsim.cpp,$(wildcard engines/*.cpp)))
all: $(ENGINES_ASAN:%=$(B)/bin/%) $(if $(wildcard engines/threadsim.cpp),$(B)/bin/threadsim)

$(B)/obj/asan/%.o: sim/%.cpp
	@mkdir -p $(dir $@)
	$(CXX) $(COMMON) $(ASAN) $(INC_ASAN) -c $< -o $@
$(B)/obj/asan/eng_%.o: engines/%.cpp
	@mkdir -p $(dir $@)
	$(CXX) $(COMMON) $(ASAN) $(INC_ASAN) -c $< -o $@
$(B)/bin/%: $(B)/obj/asan/eng_%.o $(B)/obj/asan/kernel.o $(B)/obj/asan/seams.o $(B)/asan/src/libxerces-c.a
	@mkdir -p $(dir $@)
	$(CXX) $(ASAN) -o $@ $(B)/obj/asan/eng_$*.o $(B)/obj/asan/kernel.o $(B)/obj/asan/seams.o $(LIBS_ASAN)

# threadsim: instrumented engine + uninstrumented baton (see DESIGN 3.5)
$(B)/obj/tsan/%.o: sim/%.cpp
	@mkdir -p $(dir $@)
	$(CXX) $(COMMON) $(TSAN) $(INC_TSAN) -c $< -o $@
$(B)/obj/tsan/eng_threadsim.o: engines/threadsim.cpp
	@mkdir -p $(dir $@)
	$(CXX) $(COMMON) $(TSAN) $(INC_TSAN) -c $< -o $@
$(B)/obj/tsan/baton.o: sim/baton/baton.cpp
	@mkdir -p $(dir $@)
	$(CXX) $(COMMON) $(INC_TSAN) -c $< -o $@
# ICU converter calls go through sim/icuwrap.cpp (the ICU entry points carry a version suffix: ask the preprocessor for it)
ICUSUF := $(shell printf '\043include <unicode/urename.h>\nucnv_open\n' | $(CXX) -E -P -x c++ - 2>/dev/null | tail -1 | sed 's/^ucnv_open//')
ICUWRAP := $(foreach f,ucnv_fromUChars ucnv_toUChars ucnv_fromUnicode ucnv_toUnicode ucnv_setFromUCallBack ucnv_close,-Wl,--wrap=$(f)$(ICUSUF))
$(B)/bin/threadsim: $(B)/obj/tsan/eng_threadsim.o $(B)/obj/tsan/baton.o $(B)/obj/tsan/kernel.o $(B)/obj/tsan/seams.o $(B)/obj/tsan/icuwrap.o $(B)/tsan/src/libxerces-c.a
	@mkdir -p $(dir $@)
	$(CXX) $(TSAN) $(ICUWRAP) -o $@ $(B)/obj/tsan/eng_threadsim.o $(B)/obj/tsan/baton.o $(B)/obj/tsan/kernel.o $(B)/obj/tsan/seams.o $(B)/obj/tsan/icuwrap.o $(LIBS_TSAN)

-include $(wildcard $(B)/obj/asan/*.d) $(wildcard $(B)/obj/tsan/*.d)
.SECONDARY:
