#!/usr/bin/env python3
"""Writes /verif/MANIFEST.json from the table below (single source of truth for what is claimed)."""
import json, os

ROOT = os.path.dirname(os.path.dirname(os.path.abspath(__file__)))

CLAIMED = {
 "C01": dict(engine="streamsim", cat="exploration", ref="5.C01",
   technique="deterministic simulation with fault injection: seeded runs of real parsers over simulated streams/files/network with torn, corrupted and failing inputs, cancelled callbacks and abandoned pull parses, under ASan+UBSan with an exception-type and step-budget monitor",
   text="Fault-reachable slice only. Seeded simulated runs drive all four parser APIs x four scanners x the feature matrix over generated and byte-mutated worlds while the simulated environment truncates, corrupts and fails streams, resolvers answer null or throw, handlers throw at the k-th callback and progressive parses are abandoned; every run is monitored by ASan+UBSan, by a check that only documented exception types escape and by a step budget. It is evidence about the sampled plans, not a search of all byte strings (that would be fuzzing, a different technique).",
   note="Trusts: clang ASan/UBSan (nonnull-attribute and vptr checks off), the generator+mutator as input source, the step budget constants. PosixFileMgr/CurlNetAccessor/StdMutexMgr are replaced by simulated counterparts."),
 "C02": dict(engine="streamsim", cat="fault_enumeration", ref="5.C02",
   technique="deterministic simulation with fault injection: writer-crash (truncation) enumerated at every byte offset of a generated entity, verdict compared with the generator's span map; accept side under seeded read schedules",
   text="Torn-document slice. For each generated world one entity (document, external subset, external general or parameter entity) is truncated at EVERY byte offset and parsed; the generator's span map says exactly which prefixes are still well-formed, and the parse must report a fatal error iff the prefix is not. The complete document must be accepted under the one-shot schedule and three seeded read schedules. Grammar-level single-constraint violations are a pure input property and are not decided here.",
   note="Trusts the generator's span map (cut positions that leave a well-formed prefix). Entities that the chosen configuration does not load are skipped and counted."),
 "C04": dict(engine="streamsim", cat="exploration", ref="5.C04",
   technique="deterministic simulation with fault injection: seeded read-partition schedules (1-byte, fixed-k, geometric, targeted inside a chosen construct) per entity x source kind x low-water mark, differential against the one-shot in-memory parse",
   text="Each simulated run parses one generated world (document + external DTD/entities, any of 14 encodings incl. Shift_JIS, which goes through the stateful ICU transcoder, 30% byte-mutated, most documents padded so that the body lies beyond the 48K raw buffer) twice with the same configuration: once in one read from memory, once with a seeded per-entity read schedule through a custom stream, LocalFile/StdIn sources over the simulated file manager, or a URL source over the simulated net accessor. Canonical dumps (events, errors, positions, src offsets) must be equal. Reach probes count read boundaries that actually fell inside each construct kind.",
   note="Trusts the canonical dump (SAX character callbacks are coalesced; system ids are normalised). The first 48K of every entity are consumed in one go by the reader (after fix c237369), so boundary effects are exercised on the part of a document beyond that; evidence reports split_after_first_48K probes separately."),
}

CLAIMED.update({
 "C15": dict(engine="histsim", cat="exploration", ref="5.C15",
   technique="deterministic simulation with fault injection: seeded operation histories on one long-lived parser (faulted, abandoned, reconfigured parses) checked step by step against a freshly constructed parser; adopted documents re-checked at the end",
   text="One long-lived parser object per run is driven through a seeded history of parses over documents that share element names, ID values and entity names, with injected handler exceptions (three flavours), stream failures, truncation, resolver failures, abandoned progressive parses (with and without parseReset), per-operation reconfiguration (scanner, validation scheme, features) and document-pool resets. After EVERY operation the canonical dump of the reused parser must equal that of a fresh parser performing only that operation; adopted documents must be unchanged at the end of the history and after the parser is destroyed. The scanner object of the long-lived parser is kept across operations (it is only replaced when the operation asks for another scanner kind); a fifth of the documents carries duplicated attributes and a tenth is cut inside a start tag, so that parses are aborted in the middle of a start tag. A sixth of the runs exercises the cached-grammar clauses instead: generated schemas or a DTD in the simulated file system and instances that name them; the record (events, defaults, errors, PSVI) of an instance validated against grammars preloaded with loadGrammar, against a grammar cached by an earlier parse of the same parser (cacheGrammarFromParse, then useCachedGrammarInParse) and by the caching parse itself must equal the record of a parser that loads the grammar inline; a locked pool must have the same grammars, serialised length and XSModel listing after parses against it (incl. a caching parse of a document of a foreign namespace).",
   note="Trust: canonical dump, same simulated world for both parsers. The cached-grammar comparison is made only for grammars that load without errors or warnings (an inline parse reports the grammar's own errors inside the instance's record) and only with pools that hold nothing the instance would not load itself."),
 "C18": dict(engine="histsim", cat="fault_enumeration", ref="5.C18",
   technique="deterministic simulation with fault injection: every ending of a parse (handler exception at each callback k, abandon after each progressive step, stream failure at each read, truncation, adopt/release orders, reuse) enumerated against a ledger MemoryManager; Initialize/Terminate nesting with a ledger global manager in every run",
   text="Every run performs its own XMLPlatformUtils::Initialize (custom ledger global manager, nesting depth 1-3, optionally the DOM-heap overload) and Terminate. In between, for one generated world and configuration, every way the parse can end is executed on a parser that owns its own ledger manager: natural end, exception thrown from the k-th callback for every k (capped per tier), progressive parse abandoned after every step, stream failing at reads 1-3 of every entity, truncation, adoptDocument with both destruction orders, adoptDocument() on a parser that holds no document followed by a normal parse, reuse. After the parser is destroyed its ledger must be empty and no foreign or double free may have occurred (freed blocks stay quarantined and ASan-poisoned for the run); after the last Terminate the global ledger must be empty; a second Initialize/Terminate cycle must reproduce the same dump.",
   note="Blocks that bypass MemoryManager are outside the ledger (LSan not run). OutOfMemoryException endings are not judged by the leak oracle (not among the endings the statement lists; the scanners skip clean-up on it by design)."),
})

CLAIMED.update({
 "C17": dict(engine="threadsim", cat="exploration", ref="5.C17 and 3.5",
   technique="deterministic simulation with fault injection: real threads parked and released one at a time by a seeded baton scheduler at every XMLMutex operation, at a fraction of allocations and at operation boundaries; ThreadSanitizer (blind to the uninstrumented baton) as deterministic happens-before race detector; deadlock detection; per-thread result digest vs single-thread run",
   text="Each simulated run initialises the library, optionally builds and locks a shared grammar pool, and starts 2-6 (thorough: up to 12) real threads with independent seeded workloads on private objects (parsers of all APIs and scanners, typed schema instances against the process-wide built-in datatypes, parsers on the shared locked pool with new namespace URIs, DOM build/normalise/serialise incl. owner-less doctypes, regular expressions with category and block escapes, transcoding, exception message loading, parser create/destroy). Exactly one thread runs at a time; a seeded scheduler (uniform, PCT priorities with change points, long bursts) picks the next at every scheduling point, so one seed is one interleaving, replayed exactly. Every run executes in a freshly forked process so that ThreadSanitizer's per-process de-duplication cannot hide a report. Oracles: any TSan report (race, vptr race) not listed as known finding; deadlock (no runnable thread); crash; per-thread digests equal to the same operation lists run sequentially.",
   note="TSan sees instrumented code only (not ICU, not libc). The simulated XMLMutexMgr enforces mutual exclusion through the scheduler (std::recursive_mutex of StdMutexMgr is never locked). The tsan variant of xerces-c is built with -fno-inline so that reports can be classified by the binary's own symbol table."),
})

CLAIMED.update({
 "C19": dict(engine="worldsim", cat="exploration", ref="5.C19",
   technique="deterministic simulation with fault injection: the parser inside a simulated file system + network + plan-driven entity resolver (answers / null / throws, resources missing); every open, request and resolver offer is logged and checked against a permit model; seeded entity DAGs and cycles against the SecurityManager bound",
   text="Each run generates a world - a document in /sim/a or http://sim.test/a referencing an external subset, external general and parameter entities declared in the internal and in the external subset (nested, unreferenced ones too) or schema location hints with include/import, spelled relative, absolute, as file: or http: URL, with decoy files at the locations a wrong base URI would produce - and a random configuration (scanner, validation scheme, loadExternalDTD, loadSchema, doSchema, disableDefaultEntityResolution, resolver kind and which identifiers it answers). Safety: every file open / net request seen by the simulated world must be in the set the configuration permits (empty with default resolution disabled, with the DTD-ignoring scanners, with external-DTD loading and validation off, with schema loading off; never an unreferenced entity, never a decoy). Protocol: every default open was first offered to the installed resolver, a source supplied by the resolver replaces the default, offers resolve (RFC 2396, against the base of the declaring entity) to the designated location. A quarter of the runs generate entity DAGs, cycles and parameter-entity chains and check the expansion limit (fatal error iff the document needs more expansions than the limit, at most `limit` expansions started, unaffected otherwise, cycles always reported, step budget; in a third of these runs the application sets the limit on the SecurityManager only after it has installed the manager on the parser).",
   note="The permit model encodes the statement's rules; an access that bypassed XMLPlatformUtils::fgFileMgr / fgNetAccessor would not be seen (the real PosixFileMgr and CurlNetAccessor are replaced). The SAX1 EntityResolver carries no base URI: its offers are identified by their literal."),
 "C20": dict(engine="worldsim", cat="exploration", ref="5.C20",
   technique="deterministic simulation with fault injection: generated inclusion graphs over a simulated file system with missing / unopenable / torn targets and seeded short-read schedules; result compared with a reference XInclude expander that runs on the generator's tree model with the same fault decisions",
   text="Each run generates 3-7 files in nested directories (relative hrefs incl. '../', repeated and nested includes, parse=xml and parse=text in UTF-8 / UTF-16 / ISO-8859-1, cycles and self-inclusion, fallbacks containing further includes, invalid usages) and fault decisions (target missing, cannot be opened, torn; every file read through a seeded short-read schedule). XercesDOMParser or DOMLSParser processes the main document with XInclude on. Where the reference expander says all inclusions are satisfiable the merged tree (xml:base and redundant xmlns=\"\" attributes set aside) must equal the parse of the expander's output and no fatal error may be reported; where the specification demands an error (loop, self-inclusion, unknown parse value, xpointer, two fallbacks, orphan fallback, missing href, unavailable target without fallback) one must be reported; processing must end within the step budget and leave no file handle open.",
   note="xml:base values are not compared literally: base fix-up is judged by nested relative hrefs inside included content reaching the files the model says they designate. Included files may have an xi:include as their document element (usually pointing into another directory); the main document's own root is always an element."),
})

CLAIMED.update({
 "C13": dict(engine="domsim", cat="exploration", ref="5.C13",
   technique="deterministic simulation: seeded histories of DOM Core operations (incl. the forbidden ones as injected faults) executed step by step on real xerces-c documents and on RefDOM, a small executable reference model written from the DOM specification; refinement check (exception behaviour + parallel tree walk through public getters) after every step",
   text="The first 157 869 runs of a batch are enumerated, not sampled: every history of length 1 and 2 over four binary structural operations (appendChild, insertBefore, removeChild, replaceChild) with all 81 operand pairs and nine unary operations (clone deep / shallow, normalize, splitText, adoptNode, renameNode with and without namespace, setTextContent, importNode) with all 9 operands, on a fixed world of 9 nodes (thorough: also 3.8 million histories of length 3). Each of the remaining runs creates 1-2 documents and executes a seeded history (quick 3-40 steps, thorough up to 800) of create*, insertBefore / appendChild / removeChild / replaceChild, cloneNode, importNode, adoptNode, renameNode, attribute set / remove by name and by node, character-data edits with arbitrary offsets, splitText, normalize, setTextContent, setUserData and release, with operands drawn from all live nodes of all documents and detached subtrees, so that the forbidden combinations (node into itself or a descendant, foreign-document node, reference child that is no child, second document element, out-of-range offset, invalid name) occur at the rate legal ones do. After every step: a forbidden call must have raised DOMException with a code of one of the violated preconditions and every call the model allows must have succeeded; then a parallel walk of all live roots compares type, name, value, namespace, parent / sibling / first / last / childNodes links in both directions, attribute maps and owner elements, ownerDocument, and the document element with the reference.",
   note="The model does not mirror the Text children that carry attribute values, entity-reference subtrees (read-only targets) or DocumentType children; the enumerated part covers structural operations only (attribute and character-data operations are sampled)."),
})

CLAIMED.update({
 "C14": dict(engine="domsim", cat="exploration", ref="5.C14",
   technique="deterministic simulation: a seeded scheduler interleaves a tree-mutator task (the C13 operation set) with view tasks that create, step and query NodeIterators, TreeWalkers, live tag-name lists, ID lookups and Ranges on real xerces-c documents; every view is paired with an executable reference model over RefDOM (DOM Level 2 Traversal / Range rules) that observes each primitive tree mutation; answers compared per operation, range boundary points and walker positions after every step",
   text="Each run grows a tree of some depth (3-30 nodes) and then executes a seeded interleaving (quick 3-40 steps, thorough up to 800) in which about half of the steps are tree mutations with arbitrary operands (insert / append / remove / replace incl. fragments and moves, normalize, splitText, character-data edits, setTextContent, renameNode, adoptNode, attribute edits) and half are view operations: createNodeIterator / createTreeWalker with 8 whatToShow masks and 4 filters (none, accept+skip, accept+skip+reject, accept+reject, each a pure function of node identity), nextNode / previousNode / detach, the seven walker moves and setCurrentNode, getElementsByTagName lists with item() at random indices, setIdAttribute + getElementById, createRange, the nine boundary setters with arbitrary nodes and in- and out-of-range offsets, toString, compareBoundaryPoints, cloneContents / extractContents / deleteContents, insertNode, surroundContents, cloneRange, detach. Oracles: each call's result and exception against the reference model; after every step start/end container and offset, collapsed and commonAncestorContainer of every live range (validity - one tree, offsets in bounds, start not after end - is an invariant of the model) and getCurrentNode of every walker; iterators never return a node outside their root; fragments returned by clone/extract are compared node by node incl. which nodes must be the original (moved) ones; the C13 tree comparison runs after every step as well.",
   note="Where DOM Level 2 leaves behaviour open the harness does not judge and says so in sim/domviews.hpp: nodes of another document as range operands, range boundaries in trees not rooted at a Document / DocumentFragment, a TreeWalker whose current node is outside its root or inside a rejected subtree, insertNode / surroundContents with a start inside a comment or PI, surroundContents with a newParent that has children or is read-only, toString with a boundary inside a comment / PI, getElementById with several or detached candidates, the position of a boundary point right behind a replaced child / a split text node (the order xerces-c uses is mirrored). XPath results are not covered."),
})

CLAIMED.update({
 "C16": dict(engine="poolsim", cat="exploration", ref="5.C16",
   technique="deterministic simulation with fault injection: pools built from seeded schema / DTD generators, serializeGrammars as the durable write, Terminate + Initialize as crash and restart with only the byte stream surviving, deserializeGrammars as recovery; the restored pool is compared with the original by re-validating generated instances (events, defaults, errors, PSVI) and by a canonical XSModel listing; level-stamp change as injected storage fault",
   text="Each run generates 1-3 schemas that import each other (simple types with enumeration / pattern / length / range / digits / whiteSpace facets, lists, unions, user-derived types; complex types with sequence / choice / all, mixed, simpleContent and complexContent by extension and restriction, block / final / abstract, attribute uses with default / fixed / required / prohibited, attribute groups, model groups, element and attribute wildcards; global elements with substitution groups, nillable, value constraints, block / final, unique / key / keyref; notations, annotations, blockDefault / finalDefault) and 0-2 DTDs (content models of every kind, ID / IDREF / NMTOKENS / enumerated / NOTATION / ENTITY attributes, entities, notations), loads them into pool A, records how A validates 3-14 mostly-valid instance documents (with xsi:type, xsi:nil, substitutions, wildcard content, seeded deviations) and lists its XSModel; serialises; in half of the runs the library is terminated and initialised again; restores into pool B; B must produce identical records and an identical listing; B serialised again must have the same length and restore (pool C) to the same behaviour; a third of the runs also present the stream with a changed serialisation-level stamp, which must be refused with XSerializationException.",
   note="Pools whose grammars loaded with errors go through the whole cycle (restore works, no crash, same component model, same stream length) but their validation records are not compared: what an instance means against an erroneous schema is not defined (e.g. a content model violating unique particle attribution matches differently depending on whether the UPA check ran when it was first built). The stream is delivered in full blocks as XSerializeEngine requires; torn or bit-flipped streams are outside the statement. Component coverage is bounded by sim/schemagen.hpp; the kinds that occurred are reported as probes."),
})

NOT_APPLICABLE = {
 "C03": "pure function of (document text, settings) to an event stream; no schedule, fault or history in it - deciding it needs an independent infoset oracle over generated inputs (property-based testing), not simulation; its only environment-dependent part (refill boundaries) is decided under C04",
 "C05": "finite pure function over code points and byte sequences, decided by enumeration, not by sampling schedules or faults; 'every buffer split position' is exercised by C04's targeted chunking",
 "C06": "pure function of the document text (namespace scoping); nothing for a scheduler or fault injector to vary",
 "C07": "pure function of (DTD, document) needing an independent validity oracle; no I/O, time, concurrency or history dimension",
 "C08": "pure function of (schemas, instance); no I/O, time, concurrency or history dimension",
 "C09": "pure functions of (type, facets, lexical string); no schedule, fault or history",
 "C10": "pure function of (constraint definitions, instance); no schedule, fault or history",
 "C11": "pure function of (expression, string); 'earlier uses' is sequential reuse of an immutable compiled object with no fault model (concurrent first use of the shared category tables is part of C17's workload)",
 "C12": "pure function of (tree, encoding, features); the statement gives no behaviour under write faults, and target kind alone is not a schedule",
}

# property -> reason; claimed-by-design properties whose check is not (yet) registered
NOT_BUILT = {p: "simulation target by design (DESIGN.md section 5.%s) but its check is not built/registered yet; not claimed until the engine passes its determinism and sensitivity self-tests" % p
             for p in ["C13", "C14", "C15", "C16", "C17", "C18", "C19", "C20"] if p not in CLAIMED}

def main():
    checks = []
    for pid in sorted(CLAIMED):
        c = CLAIMED[pid]
        checks.append({
            "property_id": pid,
            "quick_cmd": "./check %s --tier quick" % pid,
            "thorough_cmd": "./check %s --tier thorough" % pid,
            "evidence_file": "/verif/evidence/%s.json" % pid,
            "replay_cmd_template": "./check %s --replay {path}" % pid,
            "engine": c["engine"],
            "level_claimed": {"category": c["cat"], "text": c["text"], "design_ref": "DESIGN.md section " + c["ref"]},
            "level_note": c["note"],
            "technique": c["technique"],
        })
    engines = {}
    for pid, c in CLAIMED.items():
        engines.setdefault(c["engine"], []).append(pid)
    na = [{"property_id": k, "reason": v} for k, v in sorted({**NOT_APPLICABLE, **NOT_BUILT}.items())]
    m = {
        "version": 1,
        "setup_cmd": "scripts/setup.sh",
        "hooks": {
            "guard": "XERCES_VERIF_HOOKS",
            "enable": "scripts/build_xerces.sh passes -DXERCES_VERIF_HOOKS in CMAKE_CXX_FLAGS of the out-of-tree sanitizer builds under /verif/build/{asan,tsan}; no source in /repo is guarded by it at present (every seam is an existing public interface), so source_commits is empty",
            "baseline_off_cmd": "cmake --build /repo/_build -j8 && ctest --test-dir /repo/_build -j8 --timeout 900",
            "source_commits": [],
            "add_only": True,
        },
        "engines": [{"name": n, "path": "engines/%s.cpp" % n, "serves_properties": sorted(p), "kind_free_text": "seeded deterministic simulation engine (C++), real xerces-c code over simulated environment seams"} for n, p in sorted(engines.items())],
        "checks": checks,
        "not_applicable": na,
        "notes": "Technique family: deterministic simulation with fault injection. One integer (VERIF_SEED, default 1) decides every run; every violation is gated (same plan twice in-process + fresh-process replay), minimised, and written to /verif/replays. Genuine defects repaired in /repo are the 'fix:' commits listed in known_findings.json ('fixed' entries); recorded-not-repaired ones are its 'findings'.",
    }
    with open(os.path.join(ROOT, "MANIFEST.json"), "w") as f:
        json.dump(m, f, indent=1); f.write("\n")
    print("wrote MANIFEST.json: %d checks, %d not_applicable" % (len(checks), len(na)))

if __name__ == "__main__":
    main()
