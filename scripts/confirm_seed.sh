#!/bin/bash
# confirm_seed.sh <worktree dir with OUT/patch.diff and OUT/demo.cpp>
# Confirms independently: patch applies, library builds, 80 ctest cases pass with it, demo fails with it and passes without it.
WT=$1; OUT=$WT/OUT; LOG=$WT/CONFIRM.txt
cd $WT || exit 2
git checkout -q -- . ; : > $LOG
[ -d _b ] || cmake -G Ninja -S . -B _b -DCMAKE_BUILD_TYPE=RelWithDebInfo -Dnetwork-accessor=curl -Dtranscoder=icu -Dmessage-loader=inmemory >/dev/null 2>&1
build() { cmake --build _b -j8 >/dev/null 2>&1; }
demo() { (cd $OUT && g++ -std=c++17 ${DEMO_FLAGS} demo.cpp -o $WT/demo.bin -I$WT/src -I$WT/_b/src -L$WT/_b/src -l:libxerces-c-4.0.so -Wl,-rpath,$WT/_b/src -lpthread 2>>$LOG && (cd $OUT && timeout 300 $WT/demo.bin >/dev/null 2>&1; echo $?)); }
build || { echo "baseline build failed" >> $LOG; exit 1; }
echo "demo without change: exit $(demo)" >> $LOG
git apply $OUT/patch.diff || { echo "patch does not apply" >> $LOG; exit 1; }
build || { echo "build with change FAILED" >> $LOG; git checkout -q -- .; exit 1; }
echo "ctest with change: $(ctest --test-dir _b -j8 --timeout 900 2>&1 | grep 'tests passed')" >> $LOG
echo "demo with change: exit $(demo)" >> $LOG
git checkout -q -- .
rm -rf _b demo.bin
cat $LOG
