#!/bin/bash
# Run once after a fresh restore (offline): build both sanitizer variants of /repo and every harness binary.
set -e
cd /verif
mkdir -p build evidence replays
scripts/build_xerces.sh asan &
scripts/build_xerces.sh tsan &
wait
make -s -j16 all
echo "setup done"
