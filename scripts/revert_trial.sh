#!/bin/bash
# revert_trial.sh <fix commit> <property> [check args]: sensitivity trial with a realistic regression - the reverse of one of the
# "fix:" commits in /repo. Builds a scratch worktree of /repo HEAD with that one commit reverted (nothing is committed, /repo is not
# touched), runs the check against it in a scratch build directory, prints the verdict lines, removes the worktree.
# usage: scripts/revert_trial.sh b8c3ffc C01 [--runs N]
C=$1; P=$2; shift 2
W=/tmp/revert/$C; rm -rf $W; mkdir -p /tmp/revert
git -C /repo worktree add -q --detach $W HEAD || exit 2
mkdir -p $W/OUT; git -C /repo diff $C $C~1 > $W/OUT/patch.diff
( cd $W && git apply --check OUT/patch.diff ) || { echo "reverse of $C does not apply to HEAD"; git -C /repo worktree remove --force $W; exit 2; }
/verif/scripts/try_seed.sh $W $P "$@"
mkdir -p /tmp/revert_replays/$C; cp /tmp/seedbuild/$C/replays/*.json /tmp/revert_replays/$C/ 2>/dev/null   # (kept for the regression corpus)
git -C /repo worktree remove --force $W; rm -rf /tmp/seedbuild/$C; git -C /repo worktree prune
