#!/bin/bash
# Build (incrementally) a static sanitizer variant of /repo's current working tree.
# usage: build_xerces.sh asan|tsan|plain
set -e
V=${1:-asan}
REPO=${VERIF_REPO:-/repo}
B=${VERIF_BUILD:-/verif/build}/$V
case "$V" in
  asan) SAN="-fsanitize=address,undefined -fno-sanitize-recover=undefined -fno-sanitize=vptr,nonnull-attribute";;
  # -fno-inline: race reports are classified through the binary's symbol table (no inline records there), so the
  # function that really contains an access must exist as a symbol (e.g. the header-inline ComplexTypeInfo::getContentModel)
  tsan) SAN="-fsanitize=thread -fno-inline";;
  plain) SAN="";;
  *) echo "unknown variant $V" >&2; exit 2;;
esac
FLAGS="-O1 -g -DNDEBUG -DXERCES_VERIF_HOOKS $SAN -fno-omit-frame-pointer -Wno-everything"
if [ ! -f "$B/build.ninja" ] || [ "$(cat $B/.verif_repo 2>/dev/null)" != "$REPO|$FLAGS" ]; then
  rm -rf "$B"; mkdir -p "$B"
  cmake -G Ninja -S "$REPO" -B "$B" -DCMAKE_BUILD_TYPE=None \
    -DCMAKE_C_COMPILER=clang -DCMAKE_CXX_COMPILER=clang++ -DBUILD_SHARED_LIBS=OFF \
    -DCMAKE_CXX_FLAGS="$FLAGS" \
    -DCMAKE_C_FLAGS="-O1 -g -DNDEBUG $SAN" \
    -Dnetwork-accessor=curl -Dtranscoder=icu -Dmessage-loader=inmemory -Dmutex-manager=standard \
    > "$B.cmake.log" 2>&1 || { cat "$B.cmake.log" >&2; exit 2; }
  echo "$REPO|$FLAGS" > "$B/.verif_repo"
fi
ninja -C "$B" xerces-c > "$B.ninja.log" 2>&1 || { tail -50 "$B.ninja.log" >&2; exit 2; }
