#!/usr/bin/env python3
"""store_seed.py <id> <property> <caught:yes|no|partly> <check cmd> <what it needs to manifest> <observation>
Copies OUT/ of /tmp/mut/<id> into /verif/seeded/<id>/ and writes meta.json."""
import json, os, shutil, sys
sid, prop, caught, cmd, needs, obs = sys.argv[1:7]
src = "/tmp/mut/%s/OUT" % sid; dst = "/verif/seeded/%s" % sid
os.makedirs(dst, exist_ok=True)
for f in os.listdir(src):
    if os.path.isfile(os.path.join(src, f)) and os.path.getsize(os.path.join(src, f)) < 400000: shutil.copy(os.path.join(src, f), dst)
confirm = open("/tmp/mut/%s/CONFIRM.txt" % sid).read() if os.path.exists("/tmp/mut/%s/CONFIRM.txt" % sid) else ""
meta = {"id": sid, "property": prop, "origin": "independent sub-agent given only the property text and a scratch worktree",
        "needs_to_manifest": needs,
        "confirmed_by_me": {"how": "scripts/confirm_seed.sh in the scratch worktree: build, ctest (80 tests) with the change, demo with and without the change", "result": confirm.strip().split("\n")},
        "checked_with": cmd, "caught": caught, "observation": obs}
json.dump(meta, open(os.path.join(dst, "meta.json"), "w"), indent=1)
print("stored", dst)
