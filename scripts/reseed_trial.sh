#!/bin/bash
# reseed_trial.sh <seed id> [check args]: re-run the check of a stored seeded change (/verif/seeded/<id>) against a scratch worktree of the
# current /repo HEAD carrying that change; prints the verdict lines. /repo and /verif/build are not touched.
S=$1; shift
P=$(python3 -c "import json;print(json.load(open('/verif/seeded/$S/meta.json'))['property'])")
W=/tmp/reseed/$S; rm -rf $W; mkdir -p /tmp/reseed
git -C /repo worktree add -q --detach $W HEAD || exit 2
mkdir -p $W/OUT; cp /verif/seeded/$S/patch.diff $W/OUT/patch.diff
echo "=== $S ($P)"
/verif/scripts/try_seed.sh $W $P "$@" 2>&1 | grep -E "^(SUMMARY|VIOLATION|CORPUS)|exit=" | cut -c1-200
git -C /repo worktree remove --force $W; rm -rf /tmp/seedbuild/$S; git -C /repo worktree prune
