#!/bin/bash
# try_seed.sh <seed worktree dir> <property> [more check args]: run a check against a scratch worktree of xerces-c that
# carries a seeded change (OUT/patch.diff applied there), in a scratch build directory; /repo and /verif/build are untouched.
# usage: scripts/try_seed.sh /tmp/mut/C04b C04 [--runs N]
set -e
W=$1; P=$2; shift 2
cd "$W"
git checkout -q -- . ; git checkout -q --detach $(git -C /repo rev-parse HEAD); git apply OUT/patch.diff
export VERIF_REPO=$W VERIF_BUILD=/tmp/seedbuild/$(basename $W)
mkdir -p $VERIF_BUILD
cd /verif
set +e
./check $P "$@" > $VERIF_BUILD/$P.out 2>&1; rc=$?
grep -E "^(SUMMARY|VIOLATION|KNOWN-FINDING|HARNESS|CORPUS)" $VERIF_BUILD/$P.out | cut -c1-300
grep -E "^  class=" $VERIF_BUILD/$P.out | cut -c1-300 | head -8
echo "exit=$rc"
git -C "$W" checkout -q -- .
